#!/bin/bash
# regression over all development mutations: each must be reported by the check of its property
cd "$(dirname "$0")/.."
python3 - <<'PY' > /tmp/mutlist.txt
import sys
sys.path.insert(0,'tools')
from mutations import MUT
for n in MUT:
    c='C'+n[1:3]
    print(n,c)
PY
while read m c; do
  out=$(tools/mutrun.py $m $c 2>&1)
  nv=$(echo "$out" | grep -c '^VIOLATION')
  err=$(echo "$out" | grep -c -E 'CHECK-ERROR|AssertionError|Traceback')
  echo "$m $c violations=$nv check_error=$err"
done < /tmp/mutlist.txt
