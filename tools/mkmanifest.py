#!/usr/bin/env python3
"""Regenerates /verif/MANIFEST.json from checks.py (claimed checks) and properties.jsonl (everything else -> not_applicable)."""
import json, os, sys
V = os.path.dirname(os.path.dirname(os.path.abspath(__file__)))
sys.path.insert(0, V)
from checks import CHECKS, META
props = [json.loads(l)['id'] for l in open(os.path.join(V, 'properties.jsonl'))]
checks = []
for pid in props:
    if pid not in CHECKS or pid not in META:
        continue
    m = META[pid]
    checks.append({
        'property_id': pid,
        'quick_cmd': './vcheck %s --tier quick' % pid,
        'thorough_cmd': './vcheck %s --tier thorough' % pid,
        'evidence_file': 'evidence/%s.json' % pid,
        'replay_cmd_template': './vcheck %s --replay {path}' % pid,
        'engine': m['engine'],
        'level_claimed': {'category': CHECKS[pid]['level'], 'text': m['text'], 'design_ref': m['design_ref']},
        'level_note': m['note'],
        'technique': m['technique'],
    })
na = [{'property_id': p, 'reason': META.get('_na', {}).get(p, 'check not built yet (work in progress; see DESIGN.md)')} for p in props if p not in [c['property_id'] for c in checks]]
man = {
    'version': 1,
    'setup_cmd': './setup.sh',
    'hooks': {
        'guard': 'verif',
        'enable': 'no hook commits in /repo: vcheck instruments copies of the current working tree (cmd/vinstr) and injects engine + harness through `go test -c -tags verif -overlay <generated> -modfile <private copy>`',
        'baseline_off_cmd': "for m in cloudprober continuous_load_testing e2e-checksum e2e-examples firestore grpcgcp grpcgcp_tests spanner_prober; do (cd /repo/$m && GOFLAGS=-mod=mod go test -vet=off -count=1 -timeout 25m ./...); done",
        'source_commits': [],
        'add_only': True,
    },
    'engines': [
        {'name': 'history-bfs', 'path': 'engine/vsched/bfs.go', 'serves_properties': [p for p in props if p in CHECKS and META.get(p, {}).get('engine') == 'history-bfs'],
         'kind_free_text': 'explicit-state breadth-first search over operation histories of the real objects (successor = replay from root on a fresh instance + one operation), canonical-state deduplication, reference model and invariants after every transition'},
        {'name': 'schedule-dfs', 'path': 'engine/vsched/explore.go', 'serves_properties': [p for p in props if p in CHECKS and META.get(p, {}).get('engine') == 'schedule-dfs'],
         'kind_free_text': 'stateless depth-first exploration of all interleavings of a small multi-goroutine driver under a cooperative scheduler (preemption/deviation bounded), vector-clock race detection on every execution'},
        {'name': 'input-enum', 'path': 'harness', 'serves_properties': [p for p in props if p in CHECKS and META.get(p, {}).get('engine') == 'input-enum'],
         'kind_free_text': 'exhaustive small-scope enumeration of inputs against an independent reference implementation'},
    ],
    'checks': checks,
    'not_applicable': na,
    'notes': 'See DESIGN.md. known_findings.json lists recorded (unrepaired) defects; fix: commits in /repo repair the others.',
}
json.dump(man, open(os.path.join(V, 'MANIFEST.json'), 'w'), indent=1)
print('claimed:', [c['property_id'] for c in checks])
print('not_applicable:', [x['property_id'] for x in na])
