#!/usr/bin/env python3
"""Regenerates the table of seeded/README.md from seeded/*/meta.json (status, strengthening and round are kept in meta.json)."""
import json, os, re, glob
V = os.path.dirname(os.path.dirname(os.path.abspath(__file__)))
rows = []
stats = {}
for d in sorted(glob.glob(os.path.join(V, 'seeded', 'C*'))):
    mp = os.path.join(d, 'meta.json')
    if not os.path.exists(mp):
        continue
    m = json.load(open(mp))
    rules = set()
    for c in m.get('checks', {}).values():
        for l in c.get('lines', []):
            mm = re.match(r'--- (\S+)', l)
            if mm:
                rules.add(mm.group(1))
    files = ', '.join(sorted({os.path.basename(t) for t in m.get('touches', [])}))
    st = m.get('status', '?')
    r = m.get('round', 1)
    stats.setdefault(r, [0, 0, 0])
    stats[r][0] += 1
    if st.startswith('missed'):
        stats[r][1] += 1
    if st.startswith('not a violation'):
        stats[r][2] += 1
    rows.append('| %s | %d | %s | %s | %s | %s |' % (m['id'], r, files, ', '.join(sorted(rules)) or '-', st, m.get('strengthening', '').replace('\n', ' ')))
p = os.path.join(V, 'seeded', 'README.md')
head = open(p).read().split('| seed |')[0]
tail = '\n\nPer round (seeds / missed by the checks as they stood when the seed arrived / judged not to break the property): ' + \
    '; '.join('round %d: %d / %d / %d' % (r, *stats[r]) for r in sorted(stats)) + \
    '.\nEvery miss was a real gap and was closed by strengthening the check (column "what it took"), never by special-casing the seed; after strengthening every seed that breaks its property is reported by the quick tier of that property\'s check (`tools/seedrun.py <ID> --name <dir> --skip-confirm` re-evaluates one).\n'
open(p, 'w').write(head + '| seed | round | touches | reported by (rules) | status | what it took |\n|---|---|---|---|---|---|\n' + '\n'.join(rows) + tail)
print(len(rows), 'rows', stats)
