#!/usr/bin/env python3
"""mutrun.py <mutation-name> <check> [<check>...]: apply a named source mutation to /repo, run the checks, revert.
Mutations are (file, old, new) text replacements defined in tools/mutations.py. Also accepts a path to a .diff."""
import subprocess, sys, os
REPO = os.environ.get('VERIF_REPO', '/repo')
sys.path.insert(0, os.path.dirname(__file__))
from mutations import MUT
name = sys.argv[1]
checks = sys.argv[2:]
def sh(c, **k): return subprocess.run(c, shell=True, text=True, **k)
assert sh('git -C %s status --porcelain --untracked-files=no' % REPO, capture_output=True).stdout.strip() == '', '/repo dirty'
try:
    if name.endswith('.diff') or name.endswith('.patch'):
        assert sh('git -C %s apply %s' % (REPO, name)).returncode == 0
    else:
        for f, old, new in MUT[name]:
            p = os.path.join(REPO, f); s = open(p).read()
            assert s.count(old) == 1, (name, f, s.count(old))
            open(p, 'w').write(s.replace(old, new))
    if os.environ.get('MUT_TESTS'):
        r = sh('cd %s/grpcgcp && GOFLAGS=-mod=mod go test -count=1 ./... 2>&1 | tail -5' % REPO)
    for c in checks:
        r = sh(os.path.join(os.path.dirname(os.path.abspath(__file__)), '..', 'vcheck') + ' %s --no-evidence 2>&1 | grep -E "^(VIOLATION|KNOWN|C[0-9]+ tier|CHECK-ERROR|---)" | cut -c1-220 | head -12' % c)
finally:
    sh('git -C %s checkout -- . ' % REPO)
