#!/usr/bin/env python3
"""seedrun.py <ID> [--checks C01,C02] [--src /tmp/seed/<ID>] [--tier quick]

Confirms an independently written property-breaking change and runs our checks against it:
 1. fresh scratch worktree of /repo (outside /repo and /verif), apply patch.diff, put the demo test in place;
 2. the module's existing tests must pass with the change; the demo must FAIL with it and PASS without it;
 3. apply the patch to /repo, run the checks, revert /repo;
 4. store patch.diff, the demo and meta.json under /verif/seeded/<ID>/.
The scratch worktree is removed at the end."""
import argparse, json, os, re, shutil, subprocess, sys, time

ENV = dict(os.environ, GOFLAGS='-mod=mod', GOPROXY='off', GOSUMDB='off', GOTOOLCHAIN='local')
VERIF = os.path.dirname(os.path.dirname(os.path.abspath(__file__)))


def sh(cmd, cwd=None, timeout=3600):
    p = subprocess.run(cmd, shell=True, cwd=cwd, env=ENV, stdout=subprocess.PIPE, stderr=subprocess.STDOUT, text=True, timeout=timeout)
    return p.returncode, p.stdout


def main():
    ap = argparse.ArgumentParser()
    ap.add_argument('id')
    ap.add_argument('--checks')
    ap.add_argument('--src')
    ap.add_argument('--tier', default='quick')
    ap.add_argument('--name')
    ap.add_argument('--skip-confirm', action='store_true')
    a = ap.parse_args()
    name = a.name or a.id
    src = a.src or '/tmp/seed/' + a.id
    if a.skip_confirm and not os.path.exists(os.path.join(src, 'patch.diff')):
        src = os.path.join(VERIF, 'seeded', name)  # re-evaluation of a stored seed
    patch = os.path.join(src, 'patch.diff')
    assert os.path.exists(patch), 'no patch.diff in ' + src
    rc, out = sh('git -C /repo status --porcelain --untracked-files=no')
    assert out.strip() == '', '/repo has uncommitted changes'
    # demo files = untracked *_test.go in the author's worktree
    rc, out = sh('git status --porcelain', cwd=src) if os.path.isdir(os.path.join(src, '.git')) or os.path.exists(os.path.join(src, '.git')) else (0, '')
    demos = [l[3:].strip() for l in out.splitlines() if l.startswith('??') and l.strip().endswith('_test.go') and '/' in l[3:]]
    assert demos or a.skip_confirm, 'no demo *_test.go found in the worktree (untracked)'
    meta = {'id': name, 'property': a.id, 'source': 'independent sub-agent, worktree ' + src, 'demo_files': demos, 'ran': []}
    touched = sorted({l.split(' b/')[1].strip() for l in open(patch) if l.startswith('diff --git')})
    meta['touches'] = touched
    module = touched[0].split('/')[0]
    chk = '/tmp/seedchk_' + name
    sh('git -C /repo worktree remove --force ' + chk)
    shutil.rmtree(chk, ignore_errors=True)
    rc, out = sh('git -C /repo worktree add --detach %s HEAD' % chk)
    assert rc == 0, out
    try:
        if not a.skip_confirm:
            rc, out = sh('git apply ' + patch, cwd=chk)
            assert rc == 0, 'patch does not apply: ' + out
            # existing tests of the module
            if module == 'grpcgcp':
                cmds = ['go vet . ./multiendpoint/', 'go test -count=1 . ./multiendpoint/', "unshare -n sh -c 'ip link set lo up && go test -count=1 ./test_grpc/'"]
            elif module == 'spanner_prober':
                cmds = ['go vet ./...', "go test -count=1 ./... 2>&1 | grep -v 'invalid_options' ; true"]
            else:
                cmds = ['go build ./...', 'go vet ./...']
            for c in cmds:
                rc, out = sh(c, cwd=os.path.join(chk, module))
                ok = rc == 0 and '--- FAIL' not in out.replace('--- FAIL: TestValidFlags', '')
                tries = 0
                while not ok and 'test_grpc' in c and tries < 8:
                    # fixed port 50051 (other runs on this machine) and one timing-flaky test: retry
                    tries += 1
                    time.sleep(20 if 'address already in use' in out else 1)
                    rc, out = sh(c, cwd=os.path.join(chk, module))
                    ok = rc == 0
                meta['ran'].append({'cmd': c, 'with_change': 'pass' if ok else 'FAIL'})
                if not ok:
                    print(out[-3000:])
                    raise SystemExit('existing tests do not pass with the change: ' + c)
            # demo
            tests = []
            for d in demos:
                os.makedirs(os.path.dirname(os.path.join(chk, d)), exist_ok=True)
                shutil.copy(os.path.join(src, d), os.path.join(chk, d))
                tests += re.findall(r'^func (Test\w+)\(', open(os.path.join(src, d)).read(), re.M)
            pkgdir = os.path.dirname(demos[0])
            race = '-race ' if a.id == 'C10' or 'race' in open(os.path.join(src, 'NOTES.md')).read().lower()[:4000] and a.id in ('C10',) else ''
            cmd = 'go test %s-count=1 -run "^(%s)$" .' % (race, '|'.join(tests))
            rc1, out1 = sh(cmd, cwd=os.path.join(chk, pkgdir))
            sh('git apply -R ' + patch, cwd=chk)
            rc2, out2 = sh(cmd, cwd=os.path.join(chk, pkgdir))
            meta['ran'].append({'cmd': cmd + '  (in ' + pkgdir + ')', 'with_change': 'FAIL' if rc1 != 0 else 'pass', 'without_change': 'pass' if rc2 == 0 else 'FAIL'})
            print('demo with change: rc=%d; without: rc=%d' % (rc1, rc2))
            if not (rc1 != 0 and rc2 == 0):
                print(out1[-2000:]); print(out2[-2000:])
                raise SystemExit('demo does not discriminate')
        # our checks against the change
        checks = (a.checks or a.id).split(',')
        rc, out = sh('git -C /repo apply ' + patch)
        assert rc == 0, out
        results = {}
        try:
            for c in checks:
                t0 = time.time()
                rc, out = sh('%s/vcheck %s --tier %s --no-evidence' % (VERIF, c, a.tier))
                lines = [l for l in out.splitlines() if l.startswith(('VIOLATION', 'KNOWN', '---', 'CHECK-ERROR')) or ' tier=' in l]
                results[c] = {'exit': rc, 'wall_s': round(time.time() - t0, 1), 'lines': [l[:260] for l in lines[:12]]}
                print(c, 'exit', rc)
                for l in lines[:8]:
                    print('   ', l[:220])
        finally:
            sh('git -C /repo checkout -- .')
        meta['checks'] = results
        meta['detected_by'] = [c for c, r in results.items() if r['exit'] == 1]
        dst = os.path.join(VERIF, 'seeded', name)
        os.makedirs(dst, exist_ok=True)
        if os.path.abspath(src) != os.path.abspath(dst):
            shutil.copy(patch, os.path.join(dst, 'patch.diff'))
            for d in demos:
                shutil.copy(os.path.join(src, d), os.path.join(dst, os.path.basename(d)))
            if os.path.exists(os.path.join(src, 'NOTES.md')):
                shutil.copy(os.path.join(src, 'NOTES.md'), os.path.join(dst, 'NOTES.md'))
        old = {}
        if os.path.exists(os.path.join(dst, 'meta.json')):
            old = json.load(open(os.path.join(dst, 'meta.json')))
        if a.skip_confirm and old:
            old['checks'] = results
            old['detected_by'] = meta['detected_by']
            meta = old
        json.dump(meta, open(os.path.join(dst, 'meta.json'), 'w'), indent=1)
    finally:
        sh('git -C /repo worktree remove --force ' + chk)
        shutil.rmtree(chk, ignore_errors=True)
        rc, out = sh('git -C /repo status --porcelain --untracked-files=no')
        assert out.strip() == '', '/repo left dirty!'


if __name__ == '__main__':
    main()
