SP='spanner_prober/prober/proberlib.go'; SI='spanner_prober/prober/interceptors.go'; SM='spanner_prober/main.go'; E2E='e2e-checksum/main.go'; G='grpcgcp/gcp_multiendpoint.go'; I='grpcgcp/gcp_interceptor.go'; B='grpcgcp/gcp_balancer.go'; P='grpcgcp/gcp_picker.go'; M='grpcgcp/multiendpoint/multiendpoint.go'
MUT={
 'c13-outdated-check-before-lock': [(M,'''		me.Lock()
		defer me.Unlock()
		if e.lastChange != stateChange {
			// This timer is outdated.
			return
		}
		setState(e, unavailable)''','''		if e.lastChange != stateChange {
			// This timer is outdated.
			return
		}
		me.Lock()
		defer me.Unlock()
		setState(e, unavailable)''')],
 'c10-rr-list-unlocked': [(B,'''	gb.mu.RLock()
	scRef := gb.scRefList[atomic.AddUint32(&gb.rrRefId, 1)%uint32(len(gb.scRefList))]
''','''	scRef := gb.scRefList[atomic.AddUint32(&gb.rrRefId, 1)%uint32(len(gb.scRefList))]
	gb.mu.RLock()
''')],
 'c01-bind-window': [(P,'''					p.gb.bindSubConnRef(bk, scRef)''','''					p.gb.bindSubConn(bk, p.gb.getSubConn(scRef))''')],
 'c01-bind-overwrite': [(B,'''	if !ok {
		gb.affinityMap[bindKey] = sc
	}''','''	gb.affinityMap[bindKey] = sc
	_ = ok'''),(B,'''	if _, ok := gb.affinityMap[bindKey]; !ok {
		gb.affinityMap[bindKey] = sc
	}''','''	gb.affinityMap[bindKey] = sc''')],
 'c01-unbind-on-error': [(P,'''		scRef.streamsDecr()
		p.detectUnresponsive(ctx, scRef, callStarted, info.Err)
		if info.Err != nil {
			return
		}
''','''		scRef.streamsDecr()
		p.detectUnresponsive(ctx, scRef, callStarted, info.Err)
		if info.Err != nil && cmd != grpc_gcp.AffinityConfig_UNBIND {
			return
		}
''')],
 'c01-no-rekey-on-swap': [(B,'''		for k, v := range gb.affinityMap {
			if v == oldSc {
				gb.affinityMap[k] = sc
			}
		}
''','')],
 'c01-fallback-when-off': [(B,'''			if gb.cfg.GetChannelPool().GetFallbackToReady() {
				if sc, ok := gb.fallbackMap[boundKey]; ok {''','''			if true {
				if sc, ok := gb.fallbackMap[boundKey]; ok {''')],
 'c02-no-decr-on-error': [(P,'''		scRef.streamsDecr()
		p.detectUnresponsive(ctx, scRef, callStarted, info.Err)
		if info.Err != nil {
			return
		}
''','''		p.detectUnresponsive(ctx, scRef, callStarted, info.Err)
		if info.Err != nil {
			return
		}
		scRef.streamsDecr()
''')],
 'c02-scan-reversed': [(P,'''		if scRef.getStreamsCnt() < minStreamsCnt {
			minStreamsCnt = scRef.getStreamsCnt()''','''		if scRef.getStreamsCnt() > minStreamsCnt {
			minStreamsCnt = scRef.getStreamsCnt()''')],
 'c02-rr-no-incr': [(P,'''		scRef.streamsIncr()
		return scRef, nil
	}

	p.mu.Lock()''','''		return scRef, nil
	}

	p.mu.Lock()''')],
 'c03-no-connecting-guard': [(B,'''		if scState == connectivity.Connecting || scState == connectivity.Idle {
			return
		}''','''		if scState == connectivity.Connecting && false {
			return
		}''')],
 'c03-max-off-by-one': [(P,'''p.gb.getConnectionPoolSize() < int(p.gb.cfg.GetChannelPool().GetMaxSize())''','''p.gb.getConnectionPoolSize() <= int(p.gb.cfg.GetChannelPool().GetMaxSize())''')],
 'c03-minsize-off-by-one': [(B,'''	for len(gb.scRefs) < int(gb.cfg.GetChannelPool().GetMinSize()) {''','''	for len(gb.scRefs) <= int(gb.cfg.GetChannelPool().GetMinSize()) {''')],
 'c04-no-tf-clause': [(B,'''		(gb.state == connectivity.TransientFailure) != (oldAggrState == connectivity.TransientFailure) {''','''		(gb.state == connectivity.TransientFailure) != (oldAggrState == connectivity.TransientFailure) && false {''')],
 'c04-no-state-copy-at-swap': [(B,'''		gb.scStates[sc] = gb.scStates[oldSc]
''','''		gb.scStates[sc] = connectivity.Idle
''')],
 'c07-count-gt': [(P,'''	if scRef.deCallsInc() >= p.gb.cfg.GetChannelPool().GetUnresponsiveCalls() &&''','''	if scRef.deCallsInc() > p.gb.cfg.GetChannelPool().GetUnresponsiveCalls() &&''')],
 'c07-no-refreshcnt-incr': [(B,'''		scRef.refreshCnt++
''','')],
 'c07-shift-plus-one': [(P,'''	factor := uint32(1 << scRef.refreshCnt)''','''	factor := uint32(1 << (scRef.refreshCnt + 1))''')],
 'c07-stuck-refreshing': [(B,'''		ref.refreshing = false
''','')],
 'c08-no-drop-on-recover': [(B,'''			if gb.affinityMap[k] == sc {
				delete(gb.fallbackMap, k)
			}''','''			if gb.affinityMap[k] == sc && false {
				delete(gb.fallbackMap, k)
			}''')],
 'c08-standin-into-binding': [(B,'''					gb.fallbackMap[boundKey] = scRef.subConn
					return scRef, true''','''					gb.fallbackMap[boundKey] = scRef.subConn
					gb.affinityMap[boundKey] = scRef.subConn
					return scRef, true''')],
 'c09-index-by-screfs': [(B,'''%uint32(len(gb.scRefList))]''','''%uint32(len(gb.scRefs))]''')],
 'c09-no-ctx-case': [(B,'''		case <-ctx.Done():
			return scRef
		case <-ticker.C:''','''		case <-ticker.C:''')],
 'c20-no-connect': [(B,"""		scRef.subConn.UpdateAddresses(addrs)
		scRef.subConn.Connect()
	}

	return nil""","""		scRef.subConn.UpdateAddresses(addrs)
	}

	return nil""")],
 'c20-addrs-after': [(B,'''	gb.addrs = addrs
	if gb.cfg == nil {''','''	if gb.cfg == nil {''')],
 'c20-no-pending-update': [(B,'''		sc.UpdateAddresses(addrs)
		sc.Connect()
	}
''','''		_ = sc
	}
''')],
 'c05-no-empty-keys-guard': [(P,'''			if len(a) == 0 {
				return balancer.PickResult{}, fmt.Errorf(
					"failed to retrieve affinity key from request message: no keys found at %q", locator)
			}
''','')],
 'c06-enforce-spin': [(B,'''		if len(gb.scRefs) == before {
			// NewSubConn failed (e.g. empty address list): do not spin.
			break
		}
''','''		_ = before
''')],
 'c06-relock': [(B,'''	if len(gb.scRefs) == 0 {
		gb.addSubConn()
		return nil
	}''','''	if len(gb.scRefs) == 0 {
		gb.newSubConn()
		return nil
	}''')],
 'c14-no-outdated-guard': [(M,'''			if c, ok := me.endpoints[me.current]; ok && c.status != unavailable && c.priority < e.priority {
				// Outdated switch: priorities changed since it was scheduled and
				// the current endpoint is now preferred over the future one.
				return
			}
''','')],
 'c13-prio-ge': [(M,'''		if e.status == available && (topA == nil || topA.priority > e.priority) {''','''		if e.status == available && (topA == nil || topA.priority >= e.priority) {''')],
 'c13-recovering-as-available': [(M,'''		if e.status == available && (topA == nil''','''		if e.status != unavailable && (topA == nil''')],
 'c14-resched-on-repeat': [(M,'''	if ee.status != available {
		return
	}
''','''	if ee.status == unavailable {
		return
	}
''')],
 'c12-signal': [(I,"""	cs.Unlock()
	cs.cond.Broadcast()
	return cs.ClientStream.SendMsg(m)""","""	cs.Unlock()
	cs.cond.Signal()
	return cs.ClientStream.SendMsg(m)""")],
 'c12-no-watch': [(I,"""	if ctx.Done() != nil {
		go cs.watchContext()
	}""","""	if ctx.Done() == nil {
		go cs.watchContext()
	}""")],
 'c12-unary-ctx': [(I,"""	ctx = context.WithValue(ctx, gcpKey, gcpCtx)

	return invoker(""","""	ctx = context.WithValue(context.Background(), gcpKey, gcpCtx)

	return invoker(""")],
 'c12-recreate': [(I,"""	if cs.ClientStream == nil {
		ctx := context.WithValue(cs.ctx, gcpKey, &gcpContext{reqMsg: m})""","""	if cs.ClientStream == nil || m != nil {
		ctx := context.WithValue(cs.ctx, gcpKey, &gcpContext{reqMsg: m})""")],
 'c12-closesend-nil': [(I,"""func (cs *gcpClientStream) CloseSend() error {
	if s := cs.stream(); s != nil {
		return s.CloseSend()
	}
	return nil
}""","""func (cs *gcpClientStream) CloseSend() error {
	return cs.ClientStream.CloseSend()
}""")],
 'c12-no-broadcast-on-error': [(I,"""			cs.initStreamErr = err
			cs.Unlock()
			cs.cond.Broadcast()
			return err""","""			cs.initStreamErr = err
			cs.Unlock()
			return err""")],
 'c15-skip-status-sync': [(G,"""	for e, mc := range gme.pools {
		s := mc.conn.GetState()
		for _, me := range gme.mes {
			me.SetEndpointAvailability(e, s == connectivity.Ready)
		}
	}
	return nil""","""	return nil""")],
 'c15-default-old': [(G,"""	gme.defaultName = meOpts.Default

	// Remove obsolete MultiEndpoints.""","""	// Remove obsolete MultiEndpoints.""")],
 'c15-no-stop-monitor': [(G,"""			mc.stopMonitoring()
			delete(gme.pools, e)""","""			delete(gme.pools, e)""")],
 'c16-close-no-stop': [(G,"""	for e, mc := range gme.pools {
		mc.stopMonitoring()
		if err := mc.conn.Close(); err != nil {""","""	for e, mc := range gme.pools {
		if err := mc.conn.Close(); err != nil {""")],
 'c16-no-validate': [(G,"""		if meo == nil || len(meo.Endpoints) == 0 {""","""		if meo == nil {""")],
 'c16-ctor-no-close': [(G,"""		gme.Close()
		return nil, err""","""		return nil, err""")],
 'c15-no-close-obsolete': [(G,"""			if err := mc.conn.Close(); err != nil {
				gme.log.Errorf("error while closing the pool for %q endpoint: %v", e, err)
			}
			if gme.log.V(FINE) {
				gme.log.Infof("closed channel pool for %q endpoint.", e)
			}
			mc.stopMonitoring()""","""			mc.stopMonitoring()""")],
 'c15-name-lookup': [(G,"""	if !ok || !ook {
		me = gme.mes[gme.defaultName]
	}""","""	if !ook {
		me = gme.mes[gme.defaultName]
	}
	_ = ok""")],
 'c11-index-from-1': [(P,"""	for i := 0; i < valField.Len(); i++ {""","""	for i := 1; i < valField.Len(); i++ {""")],
 'c11-first-only': [(P,"""		keys = append(keys, kk...)
	}""","""		keys = append(keys, kk...)
		break
	}""")],
 'c11-no-ptr-elem': [(P,"""	if val.Kind() == reflect.Pointer || val.Kind() == reflect.Interface {""","""	if val.Kind() == reflect.Interface {""")],
 'c11-swallow-err': [(P,"""		if err != nil {
			return keys, err
		}
		keys = append(keys, kk...)""","""		if err != nil {
			continue
		}
		keys = append(keys, kk...)""")],
 'c11-title-lower': [(P,"""	valField := val.FieldByName(strings.Title(path[start]))""","""	valField := val.FieldByName(path[start])""")],
 'c17-no-clone': [(B,"""			ApiConfig: proto.Clone(cfg.ApiConfig).(*pb.ApiConfig),""","""			ApiConfig: func() *pb.ApiConfig { _ = proto.Clone; return cfg.ApiConfig }(),""")],
 'c17-wm-over-100': [(B,"""	if cp.GetMaxConcurrentStreamsLowWatermark() == 0 {""","""	if cp.GetMaxConcurrentStreamsLowWatermark() == 0 || cp.GetMaxConcurrentStreamsLowWatermark() > 100 {""")],
 'c17-reinit': [(B,"""	gb.addrs = addrs
	if gb.cfg == nil {""","""	gb.addrs = addrs
	if gb.cfg == nil || ccs.BalancerConfig != nil {""")],
 'c17-gcpconfig-noclone': [(G,"""	return proto.Clone(gme.gcpConfig).(*pb.ApiConfig)""","""	return gme.gcpConfig""")],
 'c17-gme-store-noclone': [(G,"""		gcpConfig:   proto.Clone(meOpts.GRPCgcpConfig).(*pb.ApiConfig),""","""		gcpConfig:   meOpts.GRPCgcpConfig,""")],
 'c17-first-entry-wins': [(B,"""			for _, method := range methodNames {
				mp[method] = affinityCfg
			}""","""			for _, method := range methodNames {
				if len(methodNames) > 1 && method == methodNames[1] {
					continue
				}
				mp[method] = affinityCfg
			}""")],
 'c18-backoff-no-clamp': [(SP,"""	if backoff > max {
		backoff = max
	}""","""	if backoff > max*2 {
		backoff = max
	}""")],
 'c18-contains': [(SI,"""		if !strings.HasPrefix(entry, gfeT4T7prefix) {""","""		if !strings.Contains(entry, gfeT4T7prefix) {""")],
 'c18-trailer-first': [(SI,"""	if len(headers[serverTimingKey]) > 0 {
		serverTiming = headers[serverTimingKey]
	} else if len(trailers[serverTimingKey]) > 0 {
		serverTiming = trailers[serverTimingKey]""","""	if len(trailers[serverTimingKey]) > 0 {
		serverTiming = trailers[serverTimingKey]
	} else if len(headers[serverTimingKey]) > 0 {
		serverTiming = headers[serverTimingKey]""")],
 'c18-regex-no-anchor': [(SM,"""	instanceDBRegex, err := regexp.Compile(`^[-_.a-zA-Z0-9]*$`)""","""	instanceDBRegex, err := regexp.Compile(`[-_.a-zA-Z0-9]*$`)""")],
 'c18-qps-lt': [(SM,"""	if *qps <= 0 || *qps > 1000 {""","""	if *qps < 0 || *qps > 1000 {""")],
 'c18-project-slash': [(SM,"""	projectRegex, err := regexp.Compile(`^[-_:.a-zA-Z0-9]*$`)""","""	projectRegex, err := regexp.Compile(`^[-_:./a-zA-Z0-9]*$`)""")],
 'c18-last-entry': [(SI,"""		return time.Duration(durationMillis) * time.Millisecond, nil
	}
	return 0, fmt.Errorf("no gfe latency response available")""","""		last = time.Duration(durationMillis) * time.Millisecond
		found = true
	}
	if found {
		return last, nil
	}
	return 0, fmt.Errorf("no gfe latency response available")"""),(SI,"""	var serverTiming []string
""","""	var serverTiming []string
	var last time.Duration
	found := false
""")],
 'c19-append': [(E2E,"""	newBytes := append(buffer.Bytes(), bytes...) // prepend""","""	newBytes := append(bytes, buffer.Bytes()...) // prepend""")],
 'c19-ieee': [(E2E,"""	crc32c := crc32.MakeTable(crc32.Castagnoli)""","""	crc32c := crc32.MakeTable(crc32.IEEE)""")],
 'c19-bigendian': [(E2E,"""	if err = buffer.EncodeFixed32(uint64(checksum)); err != nil {""","""	if err = buffer.EncodeFixed32(uint64(checksum>>24 | (checksum>>8)&0xff00 | (checksum<<8)&0xff0000 | checksum<<24)); err != nil {""")],
 'c19-wiretype': [(E2E,"""	checksumWireType = 5 // wire type is a 32-bit""","""	checksumWireType = 1 // wire type is a 32-bit""")],
 'c19-swallow-err': [(E2E,"""	bytes, err := c.protoCodec.Marshal(v)
	if err != nil {
		return bytes, err
	}""","""	bytes, err := c.protoCodec.Marshal(v)
	if err != nil && len(bytes) == 0 {
		return bytes, err
	}""")],
 'c10-pickconn-nolock': [(G,"""func (gme *GCPMultiEndpoint) pickConn(ctx context.Context) *grpc.ClientConn {
	gme.mu.RLock()
	defer gme.mu.RUnlock()""","""func (gme *GCPMultiEndpoint) pickConn(ctx context.Context) *grpc.ClientConn {""")],
 'c10-streams-nonatomic': [(B,"""func (ref *subConnRef) streamsIncr() {
	atomic.AddInt32(&ref.streamsCnt, 1)""","""func (ref *subConnRef) streamsIncr() {
	ref.streamsCnt++""")],
 'c10-me-current-nolock': [(M,"""func (me *multiEndpoint) Current() string {
	me.RLock()
	defer me.RUnlock()
	return me.current""","""func (me *multiEndpoint) Current() string {
	return me.current""")],
 'c10-bind-nolock': [(B,"""	gb.mu.Lock()
	defer gb.mu.Unlock()
	sc := ref.subConn
	if _, found := gb.scRefs[sc]; !found {""","""	sc := ref.subConn
	if _, found := gb.scRefs[sc]; !found {""")],
 'c10-notify-nolock': [(G,"""	mc.gme.mu.RLock()
	for _, me := range mc.gme.mes {
		me.SetEndpointAvailability(mc.endpoint, state == connectivity.Ready)
	}
	mc.gme.mu.RUnlock()""","""	for _, me := range mc.gme.mes {
		me.SetEndpointAvailability(mc.endpoint, state == connectivity.Ready)
	}""")],
 'c10-rr-state-nolock': [(B,"""	gb.mu.RLock()
	scRef := gb.scRefList[atomic.AddUint32(&gb.rrRefId, 1)%uint32(len(gb.scRefList))]
	if state := gb.scStates[scRef.subConn]; state == connectivity.Ready {
		gb.mu.RUnlock()
		return scRef
	} else {""","""	gb.mu.RLock()
	scRef := gb.scRefList[atomic.AddUint32(&gb.rrRefId, 1)%uint32(len(gb.scRefList))]
	gb.mu.RUnlock()
	if state := gb.scStates[scRef.subConn]; state == connectivity.Ready {
		return scRef
	} else {
		gb.mu.RLock()""")],
 'c12-stale-error': [(I,"""		cs.initStreamErr = nil
		close(cs.created)""","""		close(cs.created)""")],
}
