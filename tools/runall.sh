#!/bin/bash
# runs every claimed check (tier $1, default quick) and prints one summary line each
cd "$(dirname "$0")/.."
tier=${1:-quick}
logd=$(mktemp -d /tmp/runall.XXXXXX)
for p in C01 C02 C03 C04 C05 C06 C07 C08 C09 C10 C11 C12 C13 C14 C15 C16 C17 C18 C19 C20; do
  ./vcheck $p --tier $tier > $logd/$p.log 2>&1; rc=$?
  echo "rc=$rc $(tail -1 $logd/$p.log | cut -c1-200)"
done
rm -rf "$logd"
