//go:build verif && go1.18

// Package vgrpc replaces "google.golang.org/grpc" in gcp_multiendpoint.go
// only: everything is forwarded to the real package except ClientConn and
// Dial/DialContext, which are a harness-controlled fake connection pool whose
// operations are scheduling points of the controlled scheduler.
package vgrpc

import (
	"context"
	"fmt"

	orig "google.golang.org/grpc"
	"google.golang.org/grpc/codes"
	"google.golang.org/grpc/connectivity"
	"google.golang.org/grpc/status"

	"verif/engine/vsched"
	"verif/engine/vsync"
)

// Call is one RPC received by a fake pool.
type Call struct {
	Method  string
	Stream  bool
	MEName  interface{} // harness extracts what it needs from Ctx
	Ctx     context.Context
	Closed  bool // the pool was already closed when the call arrived
	Seq     int
	Args    interface{}
	NumOpts int
}

// ClientConn is the fake connection pool.
type ClientConn struct {
	ID         int
	Target     string
	Opts       []orig.DialOption
	mu         vsync.Mutex
	state      connectivity.State
	closed     bool
	CloseCount int
	// HoldCalls: unary calls on this pool do not return until the harness clears the flag
	HoldCalls bool
	Calls     []Call
	gen       int // bumped on every state change
}

// Registry of everything dialed during the current execution (harness resets it).
var Dialed []*ClientConn
var callSeq int

func Reset() { Dialed, callSeq = nil, 0 }

func point(what string) {
	if s := vsched.S; s != nil && !s.Unwinding(s.Running()) {
		s.Yield(nil, what)
	}
}

// NewFake creates a fake pool (used by harness dial functions).
func NewFake(target string, opts []orig.DialOption) *ClientConn {
	cc := &ClientConn{ID: len(Dialed), Target: target, Opts: opts, state: connectivity.Idle}
	Dialed = append(Dialed, cc)
	return cc
}

func Dial(target string, opts ...orig.DialOption) (*ClientConn, error) {
	point("grpc.Dial")
	return NewFake(target, opts), nil
}

func DialContext(ctx context.Context, target string, opts ...orig.DialOption) (*ClientConn, error) {
	return Dial(target, opts...)
}

func NewClient(target string, opts ...orig.DialOption) (*ClientConn, error) {
	return Dial(target, opts...)
}

func (cc *ClientConn) GetState() connectivity.State {
	cc.mu.Lock()
	defer cc.mu.Unlock()
	return cc.state
}

// SetState is the environment changing the pool's connectivity.
func (cc *ClientConn) SetState(s connectivity.State) {
	cc.mu.Lock()
	if !cc.closed && cc.state != s {
		cc.state = s
		cc.gen++
	}
	cc.mu.Unlock()
}

func (cc *ClientConn) IsClosed() bool { return cc.closed }

// PeekState reads the state without a scheduling point (harness bookkeeping).
func (cc *ClientConn) PeekState() connectivity.State { return cc.state }

func (cc *ClientConn) WaitForStateChange(ctx context.Context, source connectivity.State) bool {
	s := vsched.S
	if s == nil {
		panic(vsched.CheckError{Msg: "vgrpc.WaitForStateChange outside an execution"})
	}
	t := s.Running()
	if s.Unwinding(t) {
		return false
	}
	done := ctx.Done()
	// like grpc.ClientConn: return at once if the state already differs from source; otherwise wait for
	// ANY state change after this point (the real implementation waits on a channel that every change
	// closes, so a waiter that is parked is woken even if the state has returned to source by the time
	// it runs)
	cc.mu.Lock()
	g0, differs := cc.gen, cc.state != source
	cc.mu.Unlock()
	if differs {
		return true
	}
	s.Yield(func() bool {
		if cc.gen != g0 {
			return true
		}
		return done != nil && ctxDone(ctx)
	}, "WaitForStateChange")
	cc.mu.Lock()
	changed := cc.gen != g0
	cc.mu.Unlock()
	if changed {
		return true
	}
	// woken by the context: observe it (acquire edge through vctx)
	_ = ctx.Err()
	return false
}

func ctxDone(ctx context.Context) bool {
	select {
	case <-ctx.Done():
		return true
	default:
		return false
	}
}

func (cc *ClientConn) Close() error {
	cc.mu.Lock()
	defer cc.mu.Unlock()
	cc.CloseCount++
	if cc.closed {
		return orig.ErrClientConnClosing
	}
	cc.closed = true
	cc.state = connectivity.Shutdown
	cc.gen++
	return nil
}

func (cc *ClientConn) record(ctx context.Context, method string, stream bool, args interface{}, nopts int) bool {
	cc.mu.Lock()
	defer cc.mu.Unlock()
	callSeq++
	cc.Calls = append(cc.Calls, Call{Method: method, Stream: stream, Ctx: ctx, Closed: cc.closed, Seq: callSeq, Args: args, NumOpts: nopts})
	return cc.closed
}

func (cc *ClientConn) Invoke(ctx context.Context, method string, args, reply interface{}, opts ...orig.CallOption) error {
	if cc.record(ctx, method, false, args, len(opts)) {
		return status.Error(codes.Canceled, "grpc: the client connection is closing")
	}
	if cc.HoldCalls {
		// a unary call stays in flight until the server answers (the harness releases it)
		if s := vsched.S; s != nil && !s.Unwinding(s.Running()) {
			s.Yield(func() bool { return !cc.HoldCalls }, "unary call in flight")
		}
	}
	return nil
}

// FakeStream is what NewStream returns.
type FakeStream struct {
	orig.ClientStream
	CC *ClientConn
}

func (cc *ClientConn) NewStream(ctx context.Context, desc *orig.StreamDesc, method string, opts ...orig.CallOption) (orig.ClientStream, error) {
	if cc.record(ctx, method, true, desc, len(opts)) {
		return nil, status.Error(codes.Canceled, "grpc: the client connection is closing")
	}
	return &FakeStream{CC: cc}, nil
}

func (cc *ClientConn) String() string { return fmt.Sprintf("pool#%d(%s)", cc.ID, cc.Target) }
func (cc *ClientConn) VOrder() int    { return cc.ID }

var _ orig.ClientConnInterface = (*ClientConn)(nil)
