//go:build go1.18

// Package vatomic is the drop-in replacement for "sync/atomic" in
// instrumented code: every operation is a scheduling point, an
// acquire+release on the location, and an atomic access for the race detector.
package vatomic

import (
	"sync/atomic"
	"unsafe"

	"verif/engine/vsched"
)

var locs = map[unsafe.Pointer]*vsched.SyncObj{}
var locsOwner *vsched.Sched

func pre(p unsafe.Pointer, write bool, what string) {
	s := vsched.S
	if s == nil {
		return
	}
	t := s.Running()
	if s.Unwinding(t) {
		return
	}
	s.Yield(nil, what)
	if locsOwner != s {
		locs = map[unsafe.Pointer]*vsched.SyncObj{}
		locsOwner = s
	}
	o := locs[p]
	if o == nil {
		o = &vsched.SyncObj{}
		locs[p] = o
	}
	if s.RaceOn() {
		vsched.AtomicAccess(p, write, vsched.CallerSite())
	}
	o.Acquire()
	if write {
		o.Release()
	}
}

func AddInt32(addr *int32, delta int32) int32 {
	pre(unsafe.Pointer(addr), true, "atomic.Add")
	*addr += delta
	return *addr
}
func AddInt64(addr *int64, delta int64) int64 {
	pre(unsafe.Pointer(addr), true, "atomic.Add")
	*addr += delta
	return *addr
}
func AddUint32(addr *uint32, delta uint32) uint32 {
	pre(unsafe.Pointer(addr), true, "atomic.Add")
	*addr += delta
	return *addr
}
func AddUint64(addr *uint64, delta uint64) uint64 {
	pre(unsafe.Pointer(addr), true, "atomic.Add")
	*addr += delta
	return *addr
}
func AddUintptr(addr *uintptr, delta uintptr) uintptr {
	pre(unsafe.Pointer(addr), true, "atomic.Add")
	*addr += delta
	return *addr
}
func LoadInt32(addr *int32) int32 {
	pre(unsafe.Pointer(addr), false, "atomic.Load")
	return *addr
}
func LoadInt64(addr *int64) int64 {
	pre(unsafe.Pointer(addr), false, "atomic.Load")
	return *addr
}
func LoadUint32(addr *uint32) uint32 {
	pre(unsafe.Pointer(addr), false, "atomic.Load")
	return *addr
}
func LoadUint64(addr *uint64) uint64 {
	pre(unsafe.Pointer(addr), false, "atomic.Load")
	return *addr
}
func LoadUintptr(addr *uintptr) uintptr {
	pre(unsafe.Pointer(addr), false, "atomic.Load")
	return *addr
}
func LoadPointer(addr *unsafe.Pointer) unsafe.Pointer {
	pre(unsafe.Pointer(addr), false, "atomic.Load")
	return *addr
}
func StoreInt32(addr *int32, v int32) {
	pre(unsafe.Pointer(addr), true, "atomic.Store")
	*addr = v
}
func StoreInt64(addr *int64, v int64) {
	pre(unsafe.Pointer(addr), true, "atomic.Store")
	*addr = v
}
func StoreUint32(addr *uint32, v uint32) {
	pre(unsafe.Pointer(addr), true, "atomic.Store")
	*addr = v
}
func StoreUint64(addr *uint64, v uint64) {
	pre(unsafe.Pointer(addr), true, "atomic.Store")
	*addr = v
}
func StoreUintptr(addr *uintptr, v uintptr) {
	pre(unsafe.Pointer(addr), true, "atomic.Store")
	*addr = v
}
func StorePointer(addr *unsafe.Pointer, v unsafe.Pointer) {
	pre(unsafe.Pointer(addr), true, "atomic.Store")
	*addr = v
}
func SwapInt32(addr *int32, v int32) int32 {
	pre(unsafe.Pointer(addr), true, "atomic.Swap")
	o := *addr
	*addr = v
	return o
}
func SwapInt64(addr *int64, v int64) int64 {
	pre(unsafe.Pointer(addr), true, "atomic.Swap")
	o := *addr
	*addr = v
	return o
}
func SwapUint32(addr *uint32, v uint32) uint32 {
	pre(unsafe.Pointer(addr), true, "atomic.Swap")
	o := *addr
	*addr = v
	return o
}
func SwapUint64(addr *uint64, v uint64) uint64 {
	pre(unsafe.Pointer(addr), true, "atomic.Swap")
	o := *addr
	*addr = v
	return o
}
func CompareAndSwapInt32(addr *int32, o, n int32) bool {
	pre(unsafe.Pointer(addr), true, "atomic.CAS")
	if *addr == o {
		*addr = n
		return true
	}
	return false
}
func CompareAndSwapInt64(addr *int64, o, n int64) bool {
	pre(unsafe.Pointer(addr), true, "atomic.CAS")
	if *addr == o {
		*addr = n
		return true
	}
	return false
}
func CompareAndSwapUint32(addr *uint32, o, n uint32) bool {
	pre(unsafe.Pointer(addr), true, "atomic.CAS")
	if *addr == o {
		*addr = n
		return true
	}
	return false
}
func CompareAndSwapUint64(addr *uint64, o, n uint64) bool {
	pre(unsafe.Pointer(addr), true, "atomic.CAS")
	if *addr == o {
		*addr = n
		return true
	}
	return false
}
func CompareAndSwapPointer(addr *unsafe.Pointer, o, n unsafe.Pointer) bool {
	pre(unsafe.Pointer(addr), true, "atomic.CAS")
	if *addr == o {
		*addr = n
		return true
	}
	return false
}

// Typed atomics.
type Int32 struct{ v int32 }

func (x *Int32) Load() int32                    { return LoadInt32(&x.v) }
func (x *Int32) Store(v int32)                  { StoreInt32(&x.v, v) }
func (x *Int32) Add(d int32) int32              { return AddInt32(&x.v, d) }
func (x *Int32) Swap(v int32) int32             { return SwapInt32(&x.v, v) }
func (x *Int32) CompareAndSwap(o, n int32) bool { return CompareAndSwapInt32(&x.v, o, n) }

type Int64 struct{ v int64 }

func (x *Int64) Load() int64                    { return LoadInt64(&x.v) }
func (x *Int64) Store(v int64)                  { StoreInt64(&x.v, v) }
func (x *Int64) Add(d int64) int64              { return AddInt64(&x.v, d) }
func (x *Int64) Swap(v int64) int64             { return SwapInt64(&x.v, v) }
func (x *Int64) CompareAndSwap(o, n int64) bool { return CompareAndSwapInt64(&x.v, o, n) }

type Uint32 struct{ v uint32 }

func (x *Uint32) Load() uint32                    { return LoadUint32(&x.v) }
func (x *Uint32) Store(v uint32)                  { StoreUint32(&x.v, v) }
func (x *Uint32) Add(d uint32) uint32             { return AddUint32(&x.v, d) }
func (x *Uint32) Swap(v uint32) uint32            { return SwapUint32(&x.v, v) }
func (x *Uint32) CompareAndSwap(o, n uint32) bool { return CompareAndSwapUint32(&x.v, o, n) }

type Uint64 struct{ v uint64 }

func (x *Uint64) Load() uint64                    { return LoadUint64(&x.v) }
func (x *Uint64) Store(v uint64)                  { StoreUint64(&x.v, v) }
func (x *Uint64) Add(d uint64) uint64             { return AddUint64(&x.v, d) }
func (x *Uint64) Swap(v uint64) uint64            { return SwapUint64(&x.v, v) }
func (x *Uint64) CompareAndSwap(o, n uint64) bool { return CompareAndSwapUint64(&x.v, o, n) }

type Bool struct{ v uint32 }

func (x *Bool) Load() bool { return LoadUint32(&x.v) != 0 }
func (x *Bool) Store(b bool) {
	var v uint32
	if b {
		v = 1
	}
	StoreUint32(&x.v, v)
}
func (x *Bool) Swap(b bool) bool {
	var v uint32
	if b {
		v = 1
	}
	return SwapUint32(&x.v, v) != 0
}
func (x *Bool) CompareAndSwap(o, n bool) bool {
	var ov, nv uint32
	if o {
		ov = 1
	}
	if n {
		nv = 1
	}
	return CompareAndSwapUint32(&x.v, ov, nv)
}

type Pointer[T any] struct{ p *T }

func (x *Pointer[T]) Load() *T {
	pre(unsafe.Pointer(&x.p), false, "atomic.Load")
	return x.p
}
func (x *Pointer[T]) Store(v *T) {
	pre(unsafe.Pointer(&x.p), true, "atomic.Store")
	x.p = v
}
func (x *Pointer[T]) Swap(v *T) *T {
	pre(unsafe.Pointer(&x.p), true, "atomic.Swap")
	o := x.p
	x.p = v
	return o
}
func (x *Pointer[T]) CompareAndSwap(o, n *T) bool {
	pre(unsafe.Pointer(&x.p), true, "atomic.CAS")
	if x.p == o {
		x.p = n
		return true
	}
	return false
}

// Value.
type Value struct{ v interface{} }

func (x *Value) Load() interface{} {
	pre(unsafe.Pointer(x), false, "atomic.Load")
	return x.v
}
func (x *Value) Store(v interface{}) {
	if v == nil {
		panic("sync/atomic: store of nil value into Value")
	}
	pre(unsafe.Pointer(x), true, "atomic.Store")
	x.v = v
}
func (x *Value) Swap(v interface{}) interface{} {
	pre(unsafe.Pointer(x), true, "atomic.Swap")
	o := x.v
	x.v = v
	return o
}
func (x *Value) CompareAndSwap(o, n interface{}) bool {
	pre(unsafe.Pointer(x), true, "atomic.CAS")
	if x.v == o {
		x.v = n
		return true
	}
	return false
}

var _ = atomic.AddInt32
