//go:build go1.18

package vsched

import (
	"encoding/json"
	"fmt"
	"os"
	"sort"
	"strconv"
	"time"
)

// RunCtx is what a check function gets from the worker process.
type RunCtx struct {
	Check    string
	Tier     string
	Shard    int
	NShards  int
	Seed     int64
	Deadline time.Time
	Replay   *Violation
	out      *WorkerOutput
	unit     int
}

func (c *RunCtx) Thorough() bool { return c.Tier == "thorough" }

// Mine distributes independent work units (configurations) over the shards.
func (c *RunCtx) Mine() bool {
	u := c.unit
	c.unit++
	return u%c.NShards == c.Shard
}

// Split distributes k independent configurations over the shards. With fewer
// configurations than shards each configuration is explored by several
// sub-shards (partition of its first-level successors). It returns, for this
// worker, the configuration indices to run and the (sub, nsub) to pass to BFS.
func (c *RunCtx) Split(k int) (idx []int, sub, nsub int) {
	w := c.NShards
	if k >= w {
		for i := c.Shard; i < k; i += w {
			idx = append(idx, i)
		}
		return idx, 0, 1
	}
	nsub = w / k
	ci, sb := c.Shard%k, c.Shard/k
	if sb >= nsub {
		return nil, 0, 1
	}
	return []int{ci}, sb, nsub
}

// WorkerOutput is the JSON document one worker process writes.
type WorkerOutput struct {
	Check       string                 `json:"check"`
	Shard       int                    `json:"shard"`
	Stats       []Stats                `json:"stats"`
	Violations  []Violation            `json:"violations"`
	Assumptions []string               `json:"assumptions"`
	Extra       map[string]interface{} `json:"extra,omitempty"`
	Replay      *ReplayResult          `json:"replay,omitempty"`
	WallS       float64                `json:"wall_s"`
}

type ReplayResult struct {
	Reproduced bool     `json:"reproduced"`
	Msg        string   `json:"msg"`
	Trace      []string `json:"trace"`
}

func (c *RunCtx) Add(r *ExploreResult) {
	c.out.Stats = append(c.out.Stats, r.Stats)
	keys := make([]string, 0, len(r.Violations))
	for k := range r.Violations {
		keys = append(keys, k)
	}
	sort.Strings(keys)
	for _, k := range keys {
		v := *r.Violations[k]
		v.Shard, v.NShards = c.Shard, c.NShards
		c.out.Violations = append(c.out.Violations, v)
	}
}

func (c *RunCtx) AddStats(s Stats) { c.out.Stats = append(c.out.Stats, s) }
func (c *RunCtx) AddViolation(v Violation) {
	v.Shard, v.NShards = c.Shard, c.NShards
	c.out.Violations = append(c.out.Violations, v)
}
func (c *RunCtx) Assume(s ...string) { c.out.Assumptions = append(c.out.Assumptions, s...) }
func (c *RunCtx) Extra(k string, v interface{}) {
	if c.out.Extra == nil {
		c.out.Extra = map[string]interface{}{}
	}
	c.out.Extra[k] = v
}
func (c *RunCtx) SetReplay(r *ReplayResult) { c.out.Replay = r }

type CheckFunc func(c *RunCtx)

// Main is called from the injected TestVerif: it runs the check selected by
// the environment and writes the worker output file.
func Main(checks map[string]CheckFunc) {
	id := os.Getenv("VERIF_CHECK")
	fn, ok := checks[id]
	if !ok {
		fmt.Fprintf(os.Stderr, "CHECK-ERROR: unknown check %q in this package\n", id)
		os.Exit(2)
	}
	c := &RunCtx{Check: id, Tier: os.Getenv("VERIF_TIER"), NShards: 1}
	if c.Tier == "" {
		c.Tier = "quick"
	}
	if v, err := strconv.Atoi(os.Getenv("VERIF_SHARD")); err == nil {
		c.Shard = v
	}
	if v, err := strconv.Atoi(os.Getenv("VERIF_NSHARDS")); err == nil && v > 0 {
		c.NShards = v
	}
	if v, err := strconv.ParseInt(os.Getenv("VERIF_SEED"), 10, 64); err == nil {
		c.Seed = v
	}
	if v, err := strconv.ParseFloat(os.Getenv("VERIF_DEADLINE_S"), 64); err == nil && v > 0 {
		c.Deadline = time.Now().Add(time.Duration(v * float64(time.Second)))
	}
	if p := os.Getenv("VERIF_REPLAY"); p != "" {
		b, err := os.ReadFile(p)
		if err != nil {
			fmt.Fprintf(os.Stderr, "CHECK-ERROR: %v\n", err)
			os.Exit(2)
		}
		var v Violation
		if err := json.Unmarshal(b, &v); err != nil {
			fmt.Fprintf(os.Stderr, "CHECK-ERROR: replay file: %v\n", err)
			os.Exit(2)
		}
		c.Replay = &v
	}
	if c.Tier == "quick" {
		MapOrderAlts = "rev"
	}
	c.out = &WorkerOutput{Check: id, Shard: c.Shard}
	start := time.Now()
	func() {
		defer func() {
			if r := recover(); r != nil {
				if ce, ok := r.(CheckError); ok {
					fmt.Fprintln(os.Stderr, ce.Error())
					os.Exit(2)
				}
				panic(r)
			}
		}()
		fn(c)
	}()
	if c.Replay != nil && c.out.Replay == nil {
		// input-enumeration checks replay by re-running the enumeration
		rr := &ReplayResult{}
		for _, v := range c.out.Violations {
			if v.Sig == c.Replay.Sig {
				rr.Reproduced, rr.Msg = true, v.Msg
			}
		}
		c.out.Replay = rr
	}
	c.out.WallS = time.Since(start).Seconds()
	b, _ := json.MarshalIndent(c.out, "", " ")
	if p := os.Getenv("VERIF_OUT"); p != "" {
		if err := os.WriteFile(p, b, 0o644); err != nil {
			fmt.Fprintf(os.Stderr, "CHECK-ERROR: %v\n", err)
			os.Exit(2)
		}
	} else {
		os.Stdout.Write(b)
	}
}
