//go:build go1.18

package vsched

import (
	"fmt"
	"sort"
	"time"
)

// Violation is one property violation found by a monitor.
type Violation struct {
	Property string   `json:"property"`
	Rule     string   `json:"rule"`
	Sig      string   `json:"sig"` // stable signature (matched against known findings)
	Msg      string   `json:"msg"` // human-readable: expected vs observed
	Harness  string   `json:"harness"`
	Config   string   `json:"config"`
	History  []string `json:"history,omitempty"`
	Choices  []int    `json:"choices,omitempty"`
	Trace    []string `json:"trace,omitempty"`
	Cost     int      `json:"cost"` // preemptions+deviations (A) or depth (B)
	Count    int      `json:"count"`
	Shard    int      `json:"shard"` // worker that found it (input enumerations are replayed with the same sharding)
	NShards  int      `json:"nshards"`
}

// ExecOutcome is what a harness body reports for one complete execution.
type ExecOutcome struct {
	Outcome    string
	StateKey   string
	Nontrivial bool
	Violations []Violation
}

type ExploreOpts struct {
	Name         string
	Config       string
	PreemptBound int
	DevBound     int
	// DelayBound, if >0, additionally bounds the total number of non-default
	// choices of any kind in one execution (delay-bounded scheduling): also the
	// "free" switches at blocking points count. 0 = unbounded.
	DelayBound int
	MaxExecs   int
	Deadline   time.Time
	Race       bool
	// YieldSites: access sites (as reported in RaceSites of an earlier exploration) that are
	// scheduling points in this one; requires Race (the access hooks are live only then)
	YieldSites map[string]bool
	StepBudget int
	Shard      int
	NShards    int
}

// Stats are the counters every explorer reports.
type Stats struct {
	Name          string         `json:"name"`
	Config        string         `json:"config"`
	Kind          string         `json:"kind"` // "schedules" | "histories" | "inputs"
	Execs         int            `json:"execs"`
	Points        int            `json:"points"`
	Steps         int            `json:"steps"`
	MaxDepth      int            `json:"max_depth"`
	States        int            `json:"states"`
	Transitions   int            `json:"transitions"`
	Nontrivial    int            `json:"nontrivial"`
	Outcomes      map[string]int `json:"outcomes"`
	Bound         string         `json:"bound"`
	Capped        bool           `json:"capped"`
	CapReason     string         `json:"cap_reason,omitempty"`
	Pruned        int            `json:"pruned"`
	ByCost        map[string]int `json:"by_cost,omitempty"`
	DepthDone     int            `json:"depth_done"`
	Samples       []interface{}  `json:"samples,omitempty"`
	RacesSeen     int            `json:"races_seen"`
	DedupAudits   int            `json:"dedup_audits,omitempty"`
	FrontierSize  int            `json:"frontier_size,omitempty"`
	SubShard      string         `json:"sub_shard,omitempty"`
	KeyHashes     []uint64       `json:"key_hashes,omitempty"`
	NontrivHashes []uint64       `json:"nontriv_hashes,omitempty"`
	endStates     map[string]struct{}
	nontrivialSet map[string]struct{}
}

type ExploreResult struct {
	Stats      Stats
	Violations map[string]*Violation // by signature; min-cost instance kept
	// FeatureRoots: shortest default-environment history per abstract feature (BFS with Feature set)
	FeatureRoots map[string][]string
	// RaceSites: every access site that took part in a race in some explored execution
	RaceSites map[string]bool
}

type explorer struct {
	o       ExploreOpts
	body    func(s *Sched) *ExecOutcome
	res     *ExploreResult
	l2count int
	stop    bool
}

// Explore runs body under every schedule / environment answer within the
// bounds (stateless DFS, iterative deviation bounding folded into one pass:
// the cheapest instance of each violation signature is kept).
func Explore(o ExploreOpts, body func(s *Sched) *ExecOutcome) *ExploreResult {
	if o.NShards == 0 {
		o.NShards = 1
	}
	e := &explorer{o: o, body: body, res: &ExploreResult{Violations: map[string]*Violation{}}}
	st := &e.res.Stats
	st.Name, st.Config, st.Kind = o.Name, o.Config, "schedules"
	st.Outcomes = map[string]int{}
	st.ByCost = map[string]int{}
	st.endStates = map[string]struct{}{}
	st.nontrivialSet = map[string]struct{}{}
	st.Bound = fmt.Sprintf("preemptions<=%d,deviations<=%d", o.PreemptBound, o.DevBound)
	if o.DelayBound > 0 {
		st.Bound += fmt.Sprintf(",non-default choices<=%d", o.DelayBound)
	}
	e.explore(nil, nil, 0, 0, 0)
	st.States = len(st.endStates)
	st.Nontrivial = len(st.nontrivialSet)
	st.Transitions = st.Steps
	return e.res
}

// RunOnce replays one choice list (with tracing) and returns the outcome.
func RunOnce(o ExploreOpts, choices []int, trace bool, body func(s *Sched) *ExecOutcome) (*ExecOutcome, *Sched) {
	var out *ExecOutcome
	s := Run(Opts{StepBudget: o.StepBudget, Race: o.Race, YieldSites: o.YieldSites, Prefix: choices, Trace: trace}, func(s *Sched) {
		out = body(s)
	})
	return out, s
}

func (e *explorer) explore(prefix []int, sigs []uint64, pre, dev, level int) {
	if e.stop {
		return
	}
	st := &e.res.Stats
	if e.o.MaxExecs > 0 && st.Execs >= e.o.MaxExecs {
		e.stop, st.Capped, st.CapReason = true, true, "max_execs"
		return
	}
	if !e.o.Deadline.IsZero() && time.Now().After(e.o.Deadline) {
		e.stop, st.Capped, st.CapReason = true, true, "deadline"
		return
	}
	var out *ExecOutcome
	s := Run(Opts{StepBudget: e.o.StepBudget, Race: e.o.Race, YieldSites: e.o.YieldSites, Prefix: prefix, PrefixSigs: sigs}, func(s *Sched) {
		out = e.body(s)
	})
	owned := level >= 2 || e.o.Shard == 0
	if owned {
		st.Execs++
		st.Points += len(s.Points)
		st.Steps += s.TotalSteps
		if len(s.Points) > st.MaxDepth {
			st.MaxDepth = len(s.Points)
		}
		st.ByCost[fmt.Sprintf("p%d/d%d", pre, dev)]++
		if out != nil {
			st.Outcomes[out.Outcome]++
			st.endStates[out.StateKey] = struct{}{}
			if out.Nontrivial {
				st.nontrivialSet[out.StateKey+"|"+out.Outcome] = struct{}{}
			}
			for _, v := range out.Violations {
				e.addViolation(v, s, pre+dev)
			}
		}
		if s.Races != nil {
			keys := make([]string, 0, len(s.Races))
			for k := range s.Races {
				keys = append(keys, k)
			}
			sort.Strings(keys)
			for _, k := range keys {
				r := s.Races[k]
				st.RacesSeen++
				if e.res.RaceSites == nil {
					e.res.RaceSites = map[string]bool{}
				}
				e.res.RaceSites[r.SiteA], e.res.RaceSites[r.SiteB] = true, true
				e.addViolation(Violation{Property: "C10", Rule: "C10.RACE", Sig: "race: " + r.Sig,
					Msg: "unsynchronised conflicting accesses: " + r.A + "  ||  " + r.B}, s, pre+dev)
			}
		}
		if len(st.Samples) < 3 && (st.Execs == 1 || (out != nil && out.Nontrivial && st.Execs%97 == 3)) {
			st.Samples = append(st.Samples, map[string]interface{}{"choices": choicesOf(s.Points), "outcome": outStr(out)})
		}
	}
	pts := s.Points
	chosen := choicesOf(pts)
	allSigs := make([]uint64, len(pts))
	for i := range pts {
		allSigs[i] = pts[i].Sig
	}
	for i := len(prefix); i < len(pts); i++ {
		p := pts[i]
		for alt := 1; alt < p.N; alt++ {
			npre, ndev := pre, dev
			if p.Env {
				ndev++
			} else if p.RunningEnabled {
				npre++
			}
			if npre > e.o.PreemptBound || ndev > e.o.DevBound {
				continue
			}
			if e.o.DelayBound > 0 && level+1 > e.o.DelayBound {
				continue
			}
			if level+1 == 2 {
				idx := e.l2count
				e.l2count++
				if idx%e.o.NShards != e.o.Shard {
					continue
				}
			}
			child := append(append([]int{}, chosen[:i]...), alt)
			e.explore(child, allSigs[:i+1], npre, ndev, level+1)
			if e.stop {
				return
			}
		}
	}
}

func outStr(o *ExecOutcome) string {
	if o == nil {
		return ""
	}
	return o.Outcome
}

func choicesOf(pts []Point) []int {
	c := make([]int, len(pts))
	for i, p := range pts {
		c[i] = p.Chosen
	}
	return c
}

func (e *explorer) addViolation(v Violation, s *Sched, cost int) {
	v.Harness, v.Config = e.o.Name, e.o.Config
	v.Cost = cost
	v.Choices = choicesOf(s.Points)
	old := e.res.Violations[v.Sig]
	if old == nil {
		v.Count = 1
		vv := v
		e.res.Violations[v.Sig] = &vv
		return
	}
	old.Count++
	if cost < old.Cost || (cost == old.Cost && len(v.Choices) < len(old.Choices)) {
		v.Count = old.Count
		*old = v
	}
}
