//go:build go1.18

package vsched

import (
	"crypto/sha256"
	"encoding/binary"
	"fmt"
	"strings"
	"time"
)

// World is a harness's view of the real object under test plus its reference
// model and monitors. A fresh World is built for every execution.
type World interface {
	// Ops lists the operations enabled in the current state, simplest first.
	Ops() []string
	// Do applies one operation to the real object, advances the reference model
	// and runs the monitors.
	Do(op string)
	// Key is the canonical state key (real object + harness bookkeeping).
	Key() string
	// Poisoned: the last operation crashed / deadlocked / did not terminate;
	// the state is not expanded.
	Poisoned() bool
	// Take returns (and clears) the violations recorded so far.
	Take() []Violation
	// Nontrivial reports whether the premise of the property was exercised.
	Nontrivial() bool
}

type BFSOpts struct {
	Name       string
	Config     string
	Depth      int
	DevPerOp   int // environment deviations allowed inside one operation (0 or 1)
	MaxStates  int
	Deadline   time.Time
	StepBudget int
	// Shard/NShards partition the first-level successors (each shard keeps its
	// own seen-set: exhaustive, possibly redundant).
	Shard, NShards int
	// AfterEach, if set, is called with every newly reached state's history.
	Closure func(w World, s *Sched)
	// Feature, if set, abstracts a state; the first (shortest, default
	// environment answers only) history reaching each distinct feature value
	// is returned in ExploreResult.FeatureRoots (used to pick non-initial roots).
	Feature func(w World) string
}

// DebugKeys, if set, is called for every new state (development aid).
var DebugKeys func(key string, ops []string, choices []int)

type hnode struct {
	ops     []string
	choices []int
	enabled []string
}

// BFS explores all histories up to o.Depth breadth-first; the successor of a
// state is computed by replaying its history on a fresh real object and
// applying one more operation.
func BFS(o BFSOpts, build func(s *Sched) World) *ExploreResult {
	if o.NShards == 0 {
		o.NShards = 1
	}
	res := &ExploreResult{Violations: map[string]*Violation{}}
	st := &res.Stats
	st.Name, st.Config, st.Kind = o.Name, o.Config, "histories"
	st.Outcomes = map[string]int{}
	st.Bound = fmt.Sprintf("depth<=%d,deviations/op<=%d", o.Depth, o.DevPerOp)
	// hash compaction: the seen-set holds 128-bit SHA-256 prefixes of the canonical state keys (the
	// keys are 1-3 kB each; millions of them do not fit in memory). A collision would merge two
	// states silently; with n states its probability is below n^2 / 2^129.
	seen := map[keyHash]struct{}{}
	internOps := map[string][]string{}
	nontriv := map[keyHash]struct{}{}

	type runOut struct {
		feature  string
		key      string
		enabled  []string
		poisoned bool
		nontriv  bool
		viol     []Violation
		points   []Point
		npts     int // choice points before the closure
		steps    int
	}
	run := func(ops []string, choices []int) runOut {
		var r runOut
		s := Run(Opts{StepBudget: o.StepBudget, Prefix: choices}, func(s *Sched) {
			w := build(s)
			for i, op := range ops {
				w.Do(op)
				if w.Poisoned() && i != len(ops)-1 {
					panic(CheckError{"history replays into a poisoned state before its end"})
				}
			}
			r.viol = w.Take()
			r.poisoned = w.Poisoned()
			r.nontriv = w.Nontrivial()
			r.npts = len(s.Points)
			if !r.poisoned {
				r.key = w.Key()
				r.enabled = w.Ops()
				r.npts = len(s.Points)
				if o.Feature != nil {
					r.feature = o.Feature(w)
				}
				if o.Closure != nil {
					o.Closure(w, s)
					r.viol = append(r.viol, w.Take()...)
				}
			}
		})
		r.points = s.Points
		r.steps = s.TotalSteps
		return r
	}
	addV := func(v Violation, ops []string, choices []int) {
		v.Harness, v.Config = o.Name, o.Config
		v.History = append([]string{}, ops...)
		v.Choices = append([]int{}, choices...)
		v.Cost = len(ops)
		old := res.Violations[v.Sig]
		if old == nil {
			v.Count = 1
			vv := v
			res.Violations[v.Sig] = &vv
			return
		}
		old.Count++
		if v.Cost < old.Cost {
			v.Count = old.Count
			*old = v
		}
	}

	root := run(nil, nil)
	st.Execs++
	for _, v := range root.viol {
		addV(v, nil, nil)
	}
	if root.poisoned {
		st.Pruned++
		st.States = 1
		return res
	}
	seen[hash128(root.key)] = struct{}{}
	frontier := []hnode{{enabled: root.enabled, choices: choicesOf(root.points)[:root.npts]}}
	capped := func() bool {
		if o.MaxStates > 0 && len(seen) >= o.MaxStates {
			st.Capped, st.CapReason = true, "max_states"
			return true
		}
		if !o.Deadline.IsZero() && time.Now().After(o.Deadline) {
			st.Capped, st.CapReason = true, "deadline"
			return true
		}
		return false
	}
	l1 := 0
depthLoop:
	for depth := 1; depth <= o.Depth; depth++ {
		var next []hnode
		for _, n := range frontier {
			for _, op := range n.enabled {
				if depth == 1 {
					idx := l1
					l1++
					if idx%o.NShards != o.Shard {
						continue
					}
				}
				if capped() {
					break depthLoop
				}
				ops := append(append([]string{}, n.ops...), op)
				// default environment answers first, then single deviations
				type variant struct{ choices []int }
				vars := []variant{{n.choices}}
				for vi := 0; vi < len(vars); vi++ {
					r := run(ops, vars[vi].choices)
					st.Execs++
					st.Transitions++
					st.Steps += r.steps
					st.Points += len(r.points)
					all := choicesOf(r.points)
					full := all[:r.npts]
					if vi == 0 && o.DevPerOp > 0 {
						// deviations inside the closure only produce verdicts, no successors
						for i := r.npts; i < len(r.points); i++ {
							for alt := 1; alt < r.points[i].N; alt++ {
								c := append(append([]int{}, all[:i]...), alt)
								cr := run(ops, c)
								st.Execs++
								for _, v := range cr.viol {
									addV(v, ops, choicesOf(cr.points))
								}
							}
						}
					}
					if vi == 0 && o.DevPerOp > 0 {
						for i := len(n.choices); i < r.npts; i++ {
							for alt := 1; alt < r.points[i].N; alt++ {
								c := append(append([]int{}, full[:i]...), alt)
								vars = append(vars, variant{c})
							}
						}
					}
					for _, v := range r.viol {
						addV(v, ops, all)
					}
					if r.poisoned {
						st.Pruned++
						continue
					}
					kh := hash128(r.key)
					if r.nontriv {
						nontriv[kh] = struct{}{}
					}
					if _, ok := seen[kh]; ok {
						continue
					}
					seen[kh] = struct{}{}
					if o.Feature != nil && vi == 0 && allZero(full) {
						if res.FeatureRoots == nil {
							res.FeatureRoots = map[string][]string{}
						}
						if _, ok := res.FeatureRoots[r.feature]; !ok {
							res.FeatureRoots[r.feature] = ops
						}
					}
					if DebugKeys != nil {
						DebugKeys(r.key, ops, full)
					}
					if len(st.Samples) < 4 && (len(seen)%211 == 7 || (r.nontriv && len(st.Samples) == 0)) {
						st.Samples = append(st.Samples, map[string]interface{}{"history": ops, "env_choices": full})
					}
					// nodes with the same menu of enabled operations share one slice
					ek := strings.Join(r.enabled, "\x00")
					en, ok := internOps[ek]
					if !ok {
						en = r.enabled
						internOps[ek] = en
					}
					next = append(next, hnode{ops: ops, choices: full, enabled: en})
				}
			}
		}
		st.DepthDone = depth
		st.MaxDepth = depth
		frontier = next
		if len(frontier) == 0 {
			st.DepthDone = o.Depth // state space closed below the bound
			break
		}
	}
	st.FrontierSize = len(frontier)
	if o.NShards > 1 {
		// sub-shards keep separate seen-sets; the driver unions these hashes to
		// report distinct states per configuration
		for k := range seen {
			st.KeyHashes = append(st.KeyHashes, binary.LittleEndian.Uint64(k[:8]))
		}
		for k := range nontriv {
			st.NontrivHashes = append(st.NontrivHashes, binary.LittleEndian.Uint64(k[:8]))
		}
		st.SubShard = fmt.Sprintf("%d/%d", o.Shard, o.NShards)
	}
	st.States = len(seen)
	st.Nontrivial = len(nontriv)
	if len(st.Samples) == 0 && len(frontier) > 0 {
		st.Samples = append(st.Samples, map[string]interface{}{"history": frontier[0].ops})
	}
	return res
}

type keyHash [16]byte

func hash128(k string) keyHash {
	sum := sha256.Sum256([]byte(k))
	var h keyHash
	copy(h[:], sum[:16])
	return h
}

func allZero(c []int) bool {
	for _, x := range c {
		if x != 0 {
			return false
		}
	}
	return true
}
