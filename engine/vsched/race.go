//go:build go1.18

package vsched

import (
	"reflect"
	"sort"
	"unsafe"
)

// VC is a vector clock indexed by thread id.
type VC []uint32

func (v VC) Copy() VC { return append(VC(nil), v...) }

func (v *VC) tick(id int) {
	for len(*v) <= id {
		*v = append(*v, 0)
	}
	(*v)[id]++
}

func (v *VC) Join(o VC) {
	for len(*v) < len(o) {
		*v = append(*v, 0)
	}
	for i, c := range o {
		if c > (*v)[i] {
			(*v)[i] = c
		}
	}
}

func (v VC) at(id int) uint32 {
	if id < len(v) {
		return v[id]
	}
	return 0
}

// SyncObj carries the clock of a synchronisation object (lock, atomic
// location, condition, publication point).
type SyncObj struct{ vc VC }

// Acquire makes the running thread happen-after the last Release on o.
func (o *SyncObj) Acquire() {
	if S == nil {
		return
	}
	S.cur.vc.Join(o.vc)
}

// Release publishes the running thread's clock on o.
func (o *SyncObj) Release() {
	if S == nil {
		return
	}
	t := S.cur
	o.vc.Join(t.vc)
	t.vc.tick(t.ID)
}

// ReleaseReplace is Release for objects whose previous releases are all
// ordered before this one (mutex unlock).
func (o *SyncObj) ReleaseReplace() {
	if S == nil {
		return
	}
	t := S.cur
	o.vc = t.vc.Copy()
	t.vc.tick(t.ID)
}

type accessRec struct {
	tid    int
	clock  uint32
	site   string
	atomic bool
}

type shadowLoc struct {
	w     accessRec
	hasW  bool
	reads []accessRec
}

// RaceReport is one unordered conflicting pair of access sites.
type RaceReport struct {
	Sig    string
	A, B   string
	Points int // number of choice points when first seen
	// SiteA, SiteB: the two access sites without the access kind
	SiteA, SiteB string
}

func (s *Sched) access(p unsafe.Pointer, write, atomic bool, site string) {
	t := s.cur
	if t == nil || t.aborted || s.finishing {
		return
	}
	if s.yieldSites != nil && s.yieldSites[site] && !s.Frozen && t != s.main {
		// race-directed preemption point: this access was seen racing, so the interleavings
		// around it are behaviours of the program too
		s.yield(t, nil, "racy access "+site)
		if t.aborted || s.finishing {
			return
		}
	}
	sh := s.shadow[p]
	if sh == nil {
		sh = &shadowLoc{}
		s.shadow[p] = sh
	}
	me := accessRec{tid: t.ID, clock: t.vc.at(t.ID), site: site, atomic: atomic}
	ordered := func(a accessRec) bool { return a.tid == t.ID || a.clock <= t.vc.at(a.tid) }
	if sh.hasW && !(atomic && sh.w.atomic) && !ordered(sh.w) {
		s.reportRace(sh.w, true, me, write)
	}
	if write {
		for _, r := range sh.reads {
			if !(atomic && r.atomic) && !ordered(r) {
				s.reportRace(r, false, me, true)
			}
		}
		sh.w, sh.hasW = me, true
		sh.reads = sh.reads[:0]
	} else {
		for i, r := range sh.reads {
			if r.tid == t.ID {
				sh.reads[i] = me
				return
			}
		}
		sh.reads = append(sh.reads, me)
	}
}

func kindStr(w, a bool) string {
	k := "read"
	if w {
		k = "write"
	}
	if a {
		k = "atomic-" + k
	}
	return k
}

func (s *Sched) reportRace(a accessRec, aw bool, b accessRec, bw bool) {
	x := kindStr(aw, a.atomic) + " " + a.site
	y := kindStr(bw, b.atomic) + " " + b.site
	pair := []string{x, y}
	sort.Strings(pair)
	sig := pair[0] + " || " + pair[1]
	if _, ok := s.Races[sig]; !ok {
		s.Races[sig] = &RaceReport{Sig: sig, A: pair[0], B: pair[1], Points: len(s.Points), SiteA: a.site, SiteB: b.site}
		s.ev(s.cur, "RACE "+sig)
	}
}

// R records a plain read of *p and returns p.
func R[T any](p *T, site string) *T {
	if s := S; s != nil && s.raceOn {
		s.access(unsafe.Pointer(p), false, false, site)
	}
	return p
}

// W records a plain write of *p and returns p.
func W[T any](p *T, site string) *T {
	if s := S; s != nil && s.raceOn {
		s.access(unsafe.Pointer(p), true, false, site)
	}
	return p
}

// RaceOn reports whether the race detector is active for this execution.
func (s *Sched) RaceOn() bool { return s.raceOn }

// AtomicAccess records an atomic access on the location (used by the atomic
// shim so that mixed plain/atomic use of one location is detected).
func AtomicAccess(p unsafe.Pointer, write bool, site string) {
	if s := S; s != nil && s.raceOn {
		s.access(p, write, true, site)
	}
}

func mapPtr(m interface{}) unsafe.Pointer {
	v := reflect.ValueOf(m)
	if v.Kind() != reflect.Map || v.IsNil() {
		return nil
	}
	return v.UnsafePointer()
}

// MR records a read of the contents of map m and returns m.
func MR[M ~map[K]V, K comparable, V any](m M, site string) M {
	if s := S; s != nil && s.raceOn && m != nil {
		s.access(mapPtr(m), false, false, site)
	}
	return m
}

// MW records a write to the contents of map m and returns m.
func MW[M ~map[K]V, K comparable, V any](m M, site string) M {
	if s := S; s != nil && s.raceOn && m != nil {
		s.access(mapPtr(m), true, false, site)
	}
	return m
}

// AppendW records the element writes of an append of n elements to s and
// returns s: appending within the capacity writes into the backing array that
// other slice headers (an earlier snapshot handed to another thread) may still
// read.
func AppendW[T ~[]E, E any](s T, n int, site string) T {
	if sc := S; sc != nil && sc.raceOn && n > 0 && cap(s)-len(s) >= n {
		full := s[: len(s)+n : cap(s)]
		for i := len(s); i < len(full); i++ {
			sc.access(unsafe.Pointer(&full[i]), true, false, site)
		}
	}
	return s
}
