//go:build go1.18

package vsched

import (
	"fmt"
	"sort"
	"time"
)

// VTimer is a virtual timer owned by the scheduler.
type VTimer struct {
	Seq    int
	When   time.Time
	Period time.Duration
	Fn     func()
	C      chan time.Time
	Active bool // scheduled and not yet expired/stopped
	// Expired && !Fired: the timer is due but its effect has not happened yet
	// ("late timer": Stop() returns false and does not cancel it).
	Expired bool
	Fired   bool
	Label   string
	Created time.Time
	// OnExpire, if set, runs synchronously (on the advancing thread) at expiry.
	OnExpire func()
	so       SyncObj
}

// Now returns the virtual clock. Like the real monotonic clock it is strictly
// increasing: every reading moves it by one nanosecond (the harness alphabets
// work in milliseconds), so that code comparing two readings for identity
// behaves as it does on a real machine.
func (s *Sched) Now() time.Time {
	s.now = s.now.Add(time.Nanosecond)
	return s.now
}

// Clock returns the virtual clock without advancing it (harness use).
func (s *Sched) Clock() time.Time { return s.now }

// SetNow moves the virtual clock (never backwards) without touching timers.
func (s *Sched) SetNow(t time.Time) {
	if t.Before(s.now) {
		panic(CheckError{"virtual clock moved backwards"})
	}
	s.now = t
}

func (s *Sched) NewTimer(d time.Duration, period time.Duration, fn func(), ch chan time.Time, label string) *VTimer {
	s.tseq++
	if d < 0 {
		d = 0
	}
	t := &VTimer{Seq: s.tseq, When: s.now.Add(d), Period: period, Fn: fn, C: ch, Active: true, Label: label, Created: s.now}
	if cur := s.cur; cur != nil {
		t.so.Release()
	}
	s.timers = append(s.timers, t)
	return t
}

// StopTimer implements time.Timer.Stop: true iff the call prevented the timer
// from firing.
func (s *Sched) StopTimer(t *VTimer) bool {
	was := t.Active
	t.Active = false
	return was
}

func (s *Sched) ResetTimer(t *VTimer, d time.Duration) bool {
	was := t.Active
	if d < 0 {
		d = 0
	}
	t.When = s.now.Add(d)
	t.Active = true
	t.Expired, t.Fired = false, false
	found := false
	for _, x := range s.timers {
		if x == t {
			found = true
		}
	}
	if !found {
		s.timers = append(s.timers, t)
	}
	return was
}

// Pending returns the active timers sorted by (When, Seq).
func (s *Sched) Pending() []*VTimer {
	var r []*VTimer
	for _, t := range s.timers {
		if t.Active {
			r = append(r, t)
		}
	}
	sort.Slice(r, func(i, j int) bool {
		if !r[i].When.Equal(r[j].When) {
			return r[i].When.Before(r[j].When)
		}
		return r[i].Seq < r[j].Seq
	})
	return r
}

// ExpiredUnfired returns timers that are due but whose effect is still pending.
func (s *Sched) ExpiredUnfired() []*VTimer {
	var r []*VTimer
	for _, t := range s.timers {
		if t.Expired && !t.Fired {
			r = append(r, t)
		}
	}
	return r
}

// Expire marks a timer as due: from now on Stop() returns false. For channel
// timers the effect (the send) happens at once.
func (s *Sched) Expire(t *VTimer) {
	if !t.Active {
		return
	}
	t.Active = false
	t.Expired = true
	if t.OnExpire != nil {
		t.Fired = true
		t.OnExpire()
		return
	}
	if t.C != nil {
		s.Fire(t)
	}
}

// Fire performs the effect of an expired timer. For function timers it spawns
// the callback thread (the caller decides when to let it run) and returns it.
func (s *Sched) Fire(t *VTimer) *Thread {
	if !t.Expired || t.Fired {
		panic(CheckError{"Fire on a timer that is not expired-unfired"})
	}
	t.Fired = true
	if t.C != nil {
		select {
		case t.C <- s.now:
		default:
		}
		if t.Period > 0 {
			t.When = t.When.Add(t.Period)
			if !t.When.After(s.now) {
				t.When = s.now.Add(t.Period)
			}
			t.Active, t.Expired, t.Fired = true, false, false
		}
		return nil
	}
	fn := t.Fn
	th := s.Go(fmt.Sprintf("timer#%d", t.Seq), func() {
		t.so.Acquire()
		fn()
	})
	th.Daemon = true
	return th
}

// GC drops timers that can no longer do anything.
func (s *Sched) gcTimers() {
	k := 0
	for _, t := range s.timers {
		if t.Active || (t.Expired && !t.Fired) {
			s.timers[k] = t
			k++
		}
	}
	s.timers = s.timers[:k]
}

// AdvanceBy moves the clock forward by d, firing every timer that becomes due
// in time order; timers due at the same instant fire in an explorer-chosen
// order. After each function timer the system runs to quiescence. Must be
// called from the main thread.
func (s *Sched) AdvanceBy(d time.Duration) {
	target := s.now.Add(d)
	for {
		p := s.Pending()
		if len(p) == 0 || p[0].When.After(target) {
			break
		}
		n := 1
		for n < len(p) && p[n].When.Equal(p[0].When) {
			n++
		}
		k := 0
		if n > 1 {
			k = s.Choose(n, "timer-order")
		}
		t := p[k]
		if t.When.After(s.now) {
			s.now = t.When
		}
		s.Expire(t)
		if t.Fn != nil {
			s.Fire(t)
			s.WaitQuiescent()
		}
	}
	s.now = target
	s.gcTimers()
}
