//go:build go1.18

// Package vsched is a cooperative, fully controlled scheduler for running real
// (instrumented) Go code one virtual thread at a time, together with the
// stateless DFS explorer (explore.go), the history BFS explorer (bfs.go), a
// happens-before race detector (race.go) and a canonical state dumper
// (dump.go).
package vsched

import (
	"fmt"
	"reflect"
	"runtime"
	"sort"
	"strings"
	"time"
	"unsafe"
)

// S is the scheduler of the execution in progress (nil outside executions;
// shims then degrade to trivial uncontended behaviour).
var S *Sched

// CheckError is raised (as a panic) for conditions that are failures of the
// machinery, never violations of a property.
type CheckError struct{ Msg string }

func (e CheckError) Error() string { return "CHECK-ERROR: " + e.Msg }

type abortSentinel struct{}

// Thread is one virtual thread.
type Thread struct {
	ID      int
	Name    string
	s       *Sched
	wake    chan struct{}
	done    bool
	started bool
	aborted bool // being unwound by Finish or by itself
	selfAb  bool

	enabled func() bool // predicate of the pending operation (nil: always)
	Desc    string      // pending operation, for traces
	steps   int

	vc   VC
	Held int // shim locks currently held

	PanicVal   interface{}
	PanicSite  string
	PanicStack string
	Livelock   bool
	LiveSite   string
	Daemon     bool // spawned by library code (not by harness)
	BlockSite  string
	Tag        string // harness label
}

func (t *Thread) Done() bool { return t.done }

// Point is one recorded choice point.
type Point struct {
	Env            bool // environment choice (deviation) rather than scheduling choice
	N              int
	Chosen         int
	RunningEnabled bool // scheduling: option 0 is the running thread (switching away is a preemption)
	Sig            uint64
}

// UnlockPoints makes Mutex.Unlock a scheduling point. The instrumenter turns it on (in an init
// function of the instrumented file) when the code under test calls TryLock / TryRLock: only then
// can "another thread is inside a critical section" be observed without blocking.
var UnlockPoints bool

type Opts struct {
	StepBudget int
	Trace      bool
	Race       bool
	YieldSites map[string]bool // access sites that are scheduling points (race-directed preemption)
	Prefix     []int
	PrefixSigs []uint64 // expected signatures for the prefix points (determinism check); may be nil
}

type Sched struct {
	threads []*Thread
	cur     *Thread
	main    *Thread
	ack     chan struct{}

	prefix     []int
	prefixSigs []uint64
	Points     []Point
	hash       uint64

	stepBudget int
	TotalSteps int

	trace  bool
	Events []string

	// virtual time
	now    time.Time
	timers []*VTimer
	tseq   int

	chans map[unsafe.Pointer]*chanState

	// race detector
	raceOn     bool
	yieldSites map[string]bool
	shadow     map[unsafe.Pointer]*shadowLoc
	Races      map[string]*RaceReport

	finishing bool
	// Frozen: environment choices take their default answer without becoming
	// choice points (used while a harness replays a fixed setup prefix).
	Frozen bool

	// harness scratch
	Data interface{}
}

var Epoch = time.Date(2024, 1, 1, 0, 0, 0, 0, time.UTC)

// Run executes body as the main virtual thread of a fresh scheduler and
// unwinds every thread that is still alive afterwards.
func Run(o Opts, body func(s *Sched)) *Sched {
	if S != nil {
		panic(CheckError{"nested vsched.Run"})
	}
	s := &Sched{
		ack:        make(chan struct{}),
		prefix:     o.Prefix,
		prefixSigs: o.PrefixSigs,
		stepBudget: o.StepBudget,
		trace:      o.Trace,
		now:        Epoch,
		chans:      map[unsafe.Pointer]*chanState{},
		raceOn:     o.Race,
		yieldSites: o.YieldSites,
		hash:       1469598103934665603,
	}
	if s.stepBudget == 0 {
		s.stepBudget = 10000
	}
	if s.raceOn {
		s.shadow = map[unsafe.Pointer]*shadowLoc{}
		s.Races = map[string]*RaceReport{}
	}
	m := &Thread{ID: 0, Name: "main", s: s, wake: make(chan struct{}), started: true}
	m.vc = VC{1}
	s.threads = []*Thread{m}
	s.main = m
	s.cur = m
	S = s
	defer func() {
		s.Finish()
		S = nil
	}()
	body(s)
	return s
}

// Cur returns the running virtual thread (nil when no scheduler is active).
func Cur() *Thread {
	if S == nil {
		return nil
	}
	return S.cur
}

func (s *Sched) Threads() []*Thread { return s.threads }
func (s *Sched) Main() *Thread      { return s.main }
func (s *Sched) Running() *Thread   { return s.cur }

func (s *Sched) ev(t *Thread, what string) {
	if s.trace {
		s.Events = append(s.Events, fmt.Sprintf("T%d(%s) %s", t.ID, t.Name, what))
	}
}

func (s *Sched) mix(t *Thread, desc string) {
	h := s.hash
	h ^= uint64(t.ID) + 0x9e3779b97f4a7c15
	h *= 1099511628211
	for i := 0; i < len(desc); i++ {
		h ^= uint64(desc[i])
		h *= 1099511628211
	}
	s.hash = h
}

// Go spawns a controlled thread. It is a scheduling point for the parent.
func (s *Sched) Go(name string, fn func()) *Thread {
	parent := s.cur
	t := &Thread{ID: len(s.threads), Name: name, s: s, wake: make(chan struct{})}
	t.vc = parent.vc.Copy()
	t.vc.tick(t.ID)
	parent.vc.tick(parent.ID)
	s.threads = append(s.threads, t)
	t.Desc = "start"
	go func() {
		<-t.wake
		if t.aborted {
			t.done = true
			s.ack <- struct{}{}
			return
		}
		t.started = true
		defer func() {
			r := recover()
			if r != nil {
				if ce, ok := r.(CheckError); ok {
					panic(ce)
				}
				if _, ok := r.(abortSentinel); !ok {
					t.PanicVal = r
					t.PanicStack = stackString()
					t.PanicSite = panicSite(t.PanicStack)
					s.ev(t, fmt.Sprintf("PANIC %v at %s", r, t.PanicSite))
				}
			}
			t.done = true
			if t.aborted && !t.selfAb {
				s.ack <- struct{}{}
				return
			}
			s.ev(t, "exit")
			s.threadExit(t)
		}()
		fn()
	}()
	if !s.finishing && parent != s.main {
		s.yield(parent, nil, "go "+name)
	}
	return t
}

// threadExit hands control to the next enabled thread without waiting.
func (s *Sched) threadExit(t *Thread) {
	next := s.pickNext(nil)
	s.cur = next
	next.wake <- struct{}{}
}

func (s *Sched) isEnabled(th *Thread) bool {
	if th.done {
		return false
	}
	return th.enabled == nil || th.enabled()
}

// pickNext chooses the thread to run next. running is the thread that is at a
// scheduling point right now (nil when it just exited). The main thread is
// the harness controller: it is never preempted, and it runs again only when
// no other thread is enabled (WaitQuiescent).
func (s *Sched) pickNext(running *Thread) *Thread {
	if running == s.main && !s.main.waitingQ() {
		if s.main.enabled == nil || s.main.enabled() {
			return s.main
		}
		panic(CheckError{"main thread blocked in a shim operation: " + s.main.Desc})
	}
	var cands []*Thread
	runEn := false
	if running != nil && running != s.main && s.isEnabled(running) {
		cands = append(cands, running)
		runEn = true
	}
	for _, th := range s.threads[1:] {
		if th == running {
			continue
		}
		if s.isEnabled(th) {
			cands = append(cands, th)
		}
	}
	if len(cands) == 0 {
		return s.main
	}
	if len(cands) == 1 {
		return cands[0]
	}
	c := s.choice(len(cands), false, runEn)
	return cands[c]
}

func (t *Thread) waitingQ() bool { return t.Desc == "quiesce" }

func (s *Sched) choice(n int, env bool, runEn bool) int {
	pos := len(s.Points)
	c := 0
	if pos < len(s.prefix) {
		c = s.prefix[pos]
		if c < 0 || c >= n {
			panic(CheckError{fmt.Sprintf("replay divergence: choice %d out of range %d at point %d", c, n, pos)})
		}
		if s.prefixSigs != nil && pos < len(s.prefixSigs) && s.prefixSigs[pos] != s.hash {
			panic(CheckError{fmt.Sprintf("replay divergence: signature mismatch at point %d", pos)})
		}
	}
	s.Points = append(s.Points, Point{Env: env, N: n, Chosen: c, RunningEnabled: runEn, Sig: s.hash})
	return c
}

// Choose is an environment choice point with n options; option 0 is the
// default answer, any other one is a deviation.
func (s *Sched) Choose(n int, kind string) int {
	if n <= 1 || s.Frozen {
		return 0
	}
	s.mix(s.cur, "choose:"+kind)
	c := s.choice(n, true, false)
	if s.trace {
		s.ev(s.cur, fmt.Sprintf("choose %s -> %d/%d", kind, c, n))
	}
	return c
}

// Yield is a scheduling point of thread t whose next operation is enabled iff
// en() (nil: always).
func (s *Sched) Yield(en func() bool, desc string) {
	s.yield(s.cur, en, desc)
}

func (s *Sched) yield(t *Thread, en func() bool, desc string) {
	if t.aborted || s.finishing {
		return // unwinding: never block
	}
	t.steps++
	s.TotalSteps++
	if t != s.main && t.steps > s.stepBudget {
		t.Livelock = true
		t.LiveSite = callerSite()
		t.aborted, t.selfAb = true, true
		s.ev(t, "STEP-BUDGET exceeded at "+t.LiveSite)
		panic(abortSentinel{})
	}
	t.enabled = en
	t.Desc = desc
	s.mix(t, desc)
	if en != nil && !en() {
		// where the thread blocks is part of violation signatures: it must not depend on tracing
		t.BlockSite = callerSite()
	}
	next := s.pickNext(t)
	if next != t {
		if s.trace {
			s.ev(t, "at "+desc+" -> switch to T"+fmt.Sprint(next.ID))
		}
		s.cur = next
		next.wake <- struct{}{}
		<-t.wake
		if t.aborted {
			panic(abortSentinel{})
		}
	}
	if s.trace {
		s.ev(t, desc)
	}
	t.enabled = nil
	if t != s.main {
		t.Desc = ""
	}
}

// ResetSteps starts a new per-operation step budget for the running thread.
func (t *Thread) ResetSteps() { t.steps = 0 }
func (t *Thread) Steps() int  { return t.steps }

// WaitQuiescent parks the main thread until no other thread is enabled. On
// return main has joined (happens-after) every finished thread.
func (s *Sched) WaitQuiescent() {
	if s.cur != s.main {
		panic(CheckError{"WaitQuiescent from non-main thread"})
	}
	m := s.main
	m.Desc = "quiesce"
	m.enabled = func() bool { return false }
	next := s.pickNext(m)
	if next != m {
		s.cur = next
		next.wake <- struct{}{}
		<-m.wake
	}
	m.enabled = nil
	m.Desc = ""
	for _, th := range s.threads[1:] {
		if th.done {
			m.vc.Join(th.vc)
		}
	}
}

// Blocked returns the threads that are alive but not enabled.
func (s *Sched) Blocked() []*Thread {
	var r []*Thread
	for _, th := range s.threads[1:] {
		if !th.done && !s.isEnabled(th) {
			r = append(r, th)
		}
	}
	return r
}

// Alive returns all unfinished non-main threads.
func (s *Sched) Alive() []*Thread {
	var r []*Thread
	for _, th := range s.threads[1:] {
		if !th.done {
			r = append(r, th)
		}
	}
	return r
}

// Abort unwinds one blocked (or not yet started) thread.
func (s *Sched) Abort(t *Thread) {
	if t.done {
		return
	}
	if s.cur != s.main {
		panic(CheckError{"Abort from non-main thread"})
	}
	t.aborted = true
	s.cur = t
	t.wake <- struct{}{}
	<-s.ack
	s.cur = s.main
}

// Finish unwinds all threads still alive.
func (s *Sched) Finish() {
	if s.finishing {
		return
	}
	s.finishing = true
	for i := 1; i < len(s.threads); i++ { // threads may be appended while unwinding
		t := s.threads[i]
		if !t.done {
			t.aborted = true
			s.cur = t
			t.wake <- struct{}{}
			<-s.ack
		}
	}
	s.cur = s.main
}

// ---- channels ----

type chanState struct {
	closed bool
	vc     VC
}

func chanPtr(ch interface{}) unsafe.Pointer {
	v := reflect.ValueOf(ch)
	if v.Kind() != reflect.Chan {
		panic(CheckError{fmt.Sprintf("vsched: not a channel: %T", ch)})
	}
	return v.UnsafePointer()
}

func (s *Sched) chanReady(ch interface{}) bool {
	v := reflect.ValueOf(ch)
	if v.IsNil() {
		return false
	}
	p := v.UnsafePointer()
	if cs := s.chans[p]; cs != nil && cs.closed {
		return true
	}
	if v.Len() > 0 {
		return true
	}
	// A zero-capacity chan struct{} can only become ready by being closed (the
	// instrumented code contains no sends); a closed channel not closed through
	// us (a real context) is detected by a non-blocking receive, which does not
	// consume anything from a closed channel.
	if v.Cap() == 0 && v.Type().Elem().Kind() == reflect.Struct && v.Type().Elem().NumField() == 0 && v.Type().ChanDir()&reflect.RecvDir != 0 {
		chosen, _, recvOK := reflect.Select([]reflect.SelectCase{
			{Dir: reflect.SelectRecv, Chan: v},
			{Dir: reflect.SelectDefault},
		})
		if chosen == 0 {
			if recvOK {
				panic(CheckError{"vsched: consumed a value from an uninstrumented send on chan struct{}"})
			}
			s.chans[p] = &chanState{closed: true}
			return true
		}
	}
	return false
}

// Select blocks until one of the channels is ready (or hasDefault) and returns
// the index of the case to take, or -1 for default. The caller performs the
// receive itself immediately afterwards.
func Select(hasDefault bool, chans ...interface{}) int {
	s := S
	if s == nil {
		panic(CheckError{"vsched.Select outside an execution"})
	}
	t := s.cur
	if t.aborted {
		panic(abortSentinel{})
	}
	en := func() bool {
		if hasDefault {
			return true
		}
		for _, c := range chans {
			if s.chanReady(c) {
				return true
			}
		}
		return false
	}
	s.yield(t, en, "select")
	var ready []int
	for i, c := range chans {
		if s.chanReady(c) {
			ready = append(ready, i)
		}
	}
	if len(ready) == 0 {
		if !hasDefault {
			panic(CheckError{"select woke with nothing ready"})
		}
		return -1
	}
	k := 0
	if len(ready) > 1 {
		k = s.Choose(len(ready), "select-case")
	}
	idx := ready[k]
	if cs := s.chans[chanPtr(chans[idx])]; cs != nil && cs.vc != nil {
		t.vc.Join(cs.vc)
	}
	return idx
}

// Recv is a bare receive statement on ch.
func Recv[T any](ch <-chan T) (T, bool) {
	if S == nil {
		v, ok := <-ch
		return v, ok
	}
	Select(false, ch)
	v, ok := <-ch
	return v, ok
}

// Close closes ch with a release edge to whoever observes it.
func Close[T any](ch chan T) {
	s := S
	if s != nil {
		t := s.cur
		if !t.aborted {
			s.yield(t, nil, "close")
			p := chanPtr(ch)
			cs := s.chans[p]
			if cs == nil {
				cs = &chanState{}
				s.chans[p] = cs
			}
			cs.closed = true
			cs.vc = t.vc.Copy()
			t.vc.tick(t.ID)
		}
	}
	close(ch)
}

// MarkClosed is used by shims that close channels themselves.
func (s *Sched) MarkClosed(ch interface{}) {
	p := chanPtr(ch)
	cs := s.chans[p]
	if cs == nil {
		cs = &chanState{}
		s.chans[p] = cs
	}
	cs.closed = true
	cs.vc = s.cur.vc.Copy()
	s.cur.vc.tick(s.cur.ID)
}

// MapOrderAlts selects the alternatives offered for a map iteration order:
// "all" (canonical, reversed, every rotation) or "rev" (canonical, reversed).
var MapOrderAlts = "all"

// MapItem is one entry of a map iteration snapshot.
type MapItem[K comparable, V any] struct {
	m map[K]V
	K K
}

// Get returns the current value of the entry and whether it is still present.
func (it MapItem[K, V]) Get() (V, bool) { v, ok := it.m[it.K]; return v, ok }

// Live reports whether the entry is still present.
func (it MapItem[K, V]) Live() bool { _, ok := it.m[it.K]; return ok }

// MapIter replaces `range` over a map in instrumented code: it returns the
// keys in an order owned by the explorer (Go's is random). The default order
// is canonical (sorted); reversed order and rotations are environment
// deviations. Entries deleted during the iteration are skipped by the
// generated code through Get/Live, as the language requires.
func MapIter[M ~map[K]V, K comparable, V any](m M) []MapItem[K, V] {
	keys := make([]K, 0, len(m))
	for k := range m {
		keys = append(keys, k)
	}
	if len(keys) >= 2 {
		sort.Slice(keys, func(i, j int) bool { return keyLess(keys[i], keys[j]) })
		if S != nil && !S.finishing && !S.cur.aborted {
			n := len(keys)
			opts := n + 1
			if n == 2 || MapOrderAlts == "rev" {
				opts = 2
			}
			// options: 0 = canonical, 1 = reversed, 2.. = rotations
			c := S.Choose(opts, "maporder")
			switch {
			case c == 1:
				for i, j := 0, n-1; i < j; i, j = i+1, j-1 {
					keys[i], keys[j] = keys[j], keys[i]
				}
			case c >= 2:
				r := c - 1
				keys = append(append([]K{}, keys[r:]...), keys[:r]...)
			}
		}
	}
	items := make([]MapItem[K, V], len(keys))
	for i, k := range keys {
		items[i] = MapItem[K, V]{m: m, K: k}
	}
	return items
}

// Spawn replaces the go statement in instrumented code.
func Spawn(site string, fn func()) {
	if S == nil {
		go fn()
		return
	}
	if S.finishing || S.cur.aborted {
		return
	}
	t := S.Go(site, fn)
	t.Daemon = true
}

// Recv1 is a receive expression in single-value context.
func Recv1[T any](ch <-chan T) T {
	v, _ := Recv(ch)
	return v
}

// PtrOrder may be set by a harness to order pointer-typed map keys.
var PtrOrder func(p interface{}) (int, bool)

// Ordered lets harness objects define their canonical order.
type Ordered interface{ VOrder() int }

func keyLess(a, b interface{}) bool {
	if oa, ok := a.(Ordered); ok {
		if ob, ok := b.(Ordered); ok {
			return oa.VOrder() < ob.VOrder()
		}
	}
	va, vb := reflect.ValueOf(a), reflect.ValueOf(b)
	switch va.Kind() {
	case reflect.String:
		return va.String() < vb.String()
	case reflect.Int, reflect.Int8, reflect.Int16, reflect.Int32, reflect.Int64:
		return va.Int() < vb.Int()
	case reflect.Uint, reflect.Uint8, reflect.Uint16, reflect.Uint32, reflect.Uint64, reflect.Uintptr:
		return va.Uint() < vb.Uint()
	case reflect.Ptr:
		if PtrOrder != nil {
			if x, ok := PtrOrder(a); ok {
				if y, ok := PtrOrder(b); ok {
					return x < y
				}
			}
		}
		panic(CheckError{fmt.Sprintf("vsched.MapKeys: no canonical order for pointer keys of type %T", a)})
	}
	return fmt.Sprint(a) < fmt.Sprint(b)
}

// ---- helpers ----

func stackString() string {
	buf := make([]byte, 16384)
	n := runtime.Stack(buf, false)
	return string(buf[:n])
}

// panicSite returns the innermost frame after the panic call that is not in
// the runtime, the engine or a shim: "pkg.func".
func panicSite(stack string) string {
	lines := strings.Split(stack, "\n")
	seenPanic := false
	for i := 0; i < len(lines); i++ {
		l := lines[i]
		if strings.HasPrefix(l, "panic(") {
			seenPanic = true
			continue
		}
		if !seenPanic || strings.HasPrefix(l, "\t") || l == "" {
			continue
		}
		if strings.HasPrefix(l, "runtime.") || strings.Contains(l, "/zzverif/") || strings.HasPrefix(l, "verif/engine") {
			continue
		}
		if j := strings.LastIndex(l, "("); j > 0 {
			l = l[:j]
		}
		if k := strings.LastIndex(l, "/"); k >= 0 {
			l = l[k+1:]
		}
		return l
	}
	return "?"
}

// callerSite: innermost non-engine, non-shim function on the current stack.
func callerSite() string {
	pcs := make([]uintptr, 32)
	n := runtime.Callers(2, pcs)
	fr := runtime.CallersFrames(pcs[:n])
	for {
		f, more := fr.Next()
		fn := f.Function
		if fn != "" && !strings.Contains(fn, "/zzverif/") && !strings.HasPrefix(fn, "verif/engine") && !strings.HasPrefix(fn, "runtime.") {
			if k := strings.LastIndex(fn, "/"); k >= 0 {
				fn = fn[k+1:]
			}
			return fn
		}
		if !more {
			break
		}
	}
	return "?"
}

// CallerSite is exported for shims/harnesses.
func CallerSite() string { return callerSite() }

// Unwinding reports whether t is being torn down (its shim operations must
// neither block nor fail).
func (s *Sched) Unwinding(t *Thread) bool { return s.finishing || (t != nil && t.aborted) }

// WaitUntil blocks the calling controlled thread until pred holds. It returns
// false when the thread is being torn down.
func WaitUntil(pred func() bool, what string) bool {
	s := S
	if s == nil {
		return pred()
	}
	t := s.cur
	if s.Unwinding(t) {
		return false
	}
	s.yield(t, pred, what)
	return !s.Unwinding(t)
}
