//go:build go1.18

package vsched

import (
	"fmt"
	"reflect"
	"sort"
	"strings"
	"time"
	"unsafe"
)

// Dumper renders a canonical, address-free description of the object graph
// reachable from the roots: pointers are numbered in first-visit order, maps
// are sorted by rendered key, times are relative to Now, function values and
// shim internals are skipped. No field of an in-scope struct is dropped, so two
// states with equal dumps have equal futures as far as the dumped graph goes.
type Dumper struct {
	Now time.Time
	// InScope decides whether a struct type's fields are traversed (typically:
	// declared in the module under test). Other structs are rendered by
	// identity only.
	InScope func(t reflect.Type) bool
	// Foreign may render a value of an out-of-scope type (e.g. a harness fake
	// that wants to appear by name).
	Foreign func(v reflect.Value) (string, bool)
	// SkipField can drop a field (struct type name, field name).
	SkipField func(typ, field string) bool
	ids       map[unsafe.Pointer]int
	b         strings.Builder
}

var timeType = reflect.TypeOf(time.Time{})

func (d *Dumper) Dump(roots ...interface{}) string {
	d.ids = map[unsafe.Pointer]int{}
	d.b.Reset()
	for i, r := range roots {
		if i > 0 {
			d.b.WriteString(";")
		}
		d.val(reflect.ValueOf(r), 0)
	}
	return d.b.String()
}

func (d *Dumper) id(p unsafe.Pointer) (int, bool) {
	if n, ok := d.ids[p]; ok {
		return n, true
	}
	n := len(d.ids) + 1
	d.ids[p] = n
	return n, false
}

func isShimType(t reflect.Type) bool {
	pp := t.PkgPath()
	return strings.Contains(pp, "/zzverif/") || strings.HasPrefix(pp, "verif/engine")
}

func (d *Dumper) val(v reflect.Value, depth int) {
	if depth > 60 {
		d.b.WriteString("<deep>")
		return
	}
	if !v.IsValid() {
		d.b.WriteString("nil")
		return
	}
	t := v.Type()
	if d.Foreign != nil {
		if s, ok := d.Foreign(v); ok {
			d.b.WriteString(s)
			return
		}
	}
	switch v.Kind() {
	case reflect.Bool:
		fmt.Fprint(&d.b, v.Bool())
	case reflect.Int, reflect.Int8, reflect.Int16, reflect.Int32, reflect.Int64:
		fmt.Fprint(&d.b, v.Int())
	case reflect.Uint, reflect.Uint8, reflect.Uint16, reflect.Uint32, reflect.Uint64, reflect.Uintptr:
		fmt.Fprint(&d.b, v.Uint())
	case reflect.Float32, reflect.Float64:
		fmt.Fprint(&d.b, v.Float())
	case reflect.Complex64, reflect.Complex128:
		fmt.Fprint(&d.b, v.Complex())
	case reflect.String:
		fmt.Fprintf(&d.b, "%q", v.String())
	case reflect.Func:
		if v.IsNil() {
			d.b.WriteString("func:nil")
		} else {
			d.b.WriteString("func")
		}
	case reflect.Chan:
		if v.IsNil() {
			d.b.WriteString("chan:nil")
			return
		}
		n, _ := d.id(v.UnsafePointer())
		closed := false
		if S != nil {
			if cs := S.chans[v.UnsafePointer()]; cs != nil {
				closed = cs.closed
			}
		}
		fmt.Fprintf(&d.b, "chan#%d(len=%d,closed=%v)", n, v.Len(), closed)
	case reflect.Ptr:
		if v.IsNil() {
			d.b.WriteString("nil")
			return
		}
		n, seen := d.id(v.UnsafePointer())
		if seen {
			fmt.Fprintf(&d.b, "&%d", n)
			return
		}
		fmt.Fprintf(&d.b, "&%d=", n)
		d.val(v.Elem(), depth+1)
	case reflect.Interface:
		if v.IsNil() {
			d.b.WriteString("nil")
			return
		}
		e := v.Elem()
		d.b.WriteString("(" + e.Type().String() + ")")
		d.val(e, depth+1)
	case reflect.Slice:
		if v.IsNil() {
			d.b.WriteString("[]nil")
			return
		}
		d.b.WriteString("[")
		for i := 0; i < v.Len(); i++ {
			if i > 0 {
				d.b.WriteString(",")
			}
			d.val(v.Index(i), depth+1)
		}
		d.b.WriteString("]")
	case reflect.Array:
		d.b.WriteString("[")
		for i := 0; i < v.Len(); i++ {
			if i > 0 {
				d.b.WriteString(",")
			}
			d.val(v.Index(i), depth+1)
		}
		d.b.WriteString("]")
	case reflect.Map:
		if v.IsNil() {
			d.b.WriteString("map:nil")
			return
		}
		// Keys are rendered with a scratch dumper sharing the id table only for
		// already-known pointers, so that the order does not depend on visit order.
		type kv struct {
			k string
			v reflect.Value
		}
		var items []kv
		it := v.MapRange()
		for it.Next() {
			items = append(items, kv{d.keyString(it.Key()), it.Value()})
		}
		sort.Slice(items, func(i, j int) bool { return items[i].k < items[j].k })
		d.b.WriteString("map{")
		for i, x := range items {
			if i > 0 {
				d.b.WriteString(",")
			}
			d.b.WriteString(x.k + ":")
			d.val(x.v, depth+1)
		}
		d.b.WriteString("}")
	case reflect.Struct:
		if t == timeType {
			d.timeVal(v)
			return
		}
		if isShimType(t) {
			d.b.WriteString("<shim>")
			return
		}
		if d.InScope != nil && !d.InScope(t) {
			d.b.WriteString("<" + t.String() + ">")
			return
		}
		d.b.WriteString(t.Name() + "{")
		for i := 0; i < v.NumField(); i++ {
			f := t.Field(i)
			if d.SkipField != nil && d.SkipField(t.Name(), f.Name) {
				continue
			}
			d.b.WriteString(f.Name + "=")
			d.val(v.Field(i), depth+1)
			d.b.WriteString(" ")
		}
		d.b.WriteString("}")
	case reflect.UnsafePointer:
		d.b.WriteString("uptr")
	default:
		d.b.WriteString("?" + v.Kind().String())
	}
}

// keyString renders a map key. Pointer-like keys must be nameable without
// depending on visit order: harness objects implement Ordered or are rendered
// by Foreign.
func (d *Dumper) keyString(k reflect.Value) string {
	sub := &Dumper{Now: d.Now, InScope: d.InScope, Foreign: d.Foreign, SkipField: d.SkipField, ids: map[unsafe.Pointer]int{}}
	sub.val(k, 0)
	return sub.b.String()
}

func (d *Dumper) timeVal(v reflect.Value) {
	var tm time.Time
	if v.CanAddr() {
		tm = *(*time.Time)(unsafe.Pointer(v.UnsafeAddr()))
	} else if v.CanInterface() {
		tm = v.Interface().(time.Time)
	} else {
		c := reflect.New(timeType).Elem()
		// copy field by field through unsafe
		d.b.WriteString("time?")
		_ = c
		return
	}
	if tm.IsZero() {
		d.b.WriteString("t0")
		return
	}
	delta := tm.Sub(d.Now)
	// round to 100µs: the virtual clock drifts by 1ns per reading
	r := delta.Round(100 * time.Microsecond)
	fmt.Fprintf(&d.b, "now%+d", int64(r/(100*time.Microsecond)))
}
