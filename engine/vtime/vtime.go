//go:build go1.18

// Package vtime is the drop-in replacement for "time" in instrumented code:
// the clock, timers and tickers are virtual and owned by the scheduler.
package vtime

import (
	"time"

	"verif/engine/vsched"
)

func Now() time.Time {
	if s := vsched.S; s != nil {
		return s.Now()
	}
	return vsched.Epoch
}

func Since(t time.Time) time.Duration { return Now().Sub(t) }
func Until(t time.Time) time.Duration { return t.Sub(Now()) }

type Timer struct {
	C <-chan time.Time
	t *vsched.VTimer
}

// VT exposes the scheduler's timer (harness use).
func (t *Timer) VT() *vsched.VTimer { return t.t }

func (t *Timer) Stop() bool {
	if t.t == nil {
		panic("time: Stop called on uninitialized Timer")
	}
	s := vsched.S
	if s == nil {
		return false
	}
	return s.StopTimer(t.t)
}

func (t *Timer) Reset(d time.Duration) bool {
	if t.t == nil {
		panic("time: Reset called on uninitialized Timer")
	}
	s := vsched.S
	if s == nil {
		return false
	}
	return s.ResetTimer(t.t, d)
}

func need() *vsched.Sched {
	s := vsched.S
	if s == nil {
		panic(vsched.CheckError{Msg: "vtime: timer created outside an execution"})
	}
	return s
}

func NewTimer(d time.Duration) *Timer {
	ch := make(chan time.Time, 1)
	return &Timer{C: ch, t: need().NewTimer(d, 0, nil, ch, "timer")}
}

func AfterFunc(d time.Duration, f func()) *Timer {
	return &Timer{t: need().NewTimer(d, 0, f, nil, "afterfunc@"+vsched.CallerSite())}
}

func After(d time.Duration) <-chan time.Time { return NewTimer(d).C }

type Ticker struct {
	C <-chan time.Time
	t *vsched.VTimer
}

func NewTicker(d time.Duration) *Ticker {
	if d <= 0 {
		panic("non-positive interval for NewTicker")
	}
	ch := make(chan time.Time, 1)
	return &Ticker{C: ch, t: need().NewTimer(d, d, nil, ch, "ticker")}
}

func (t *Ticker) Stop() {
	if s := vsched.S; s != nil && t.t != nil {
		s.StopTimer(t.t)
	}
}

func (t *Ticker) Reset(d time.Duration) {
	if d <= 0 {
		panic("non-positive interval for Ticker.Reset")
	}
	if s := vsched.S; s != nil && t.t != nil {
		t.t.Period = d
		s.ResetTimer(t.t, d)
	}
}

func Tick(d time.Duration) <-chan time.Time {
	if d <= 0 {
		return nil
	}
	return NewTicker(d).C
}

// Sleep blocks the thread until the virtual clock has advanced by d.
func Sleep(d time.Duration) {
	if d <= 0 {
		return
	}
	s := need()
	t := s.Running()
	if s.Unwinding(t) {
		return
	}
	until := s.Now().Add(d)
	ch := make(chan time.Time, 1)
	s.NewTimer(d, 0, nil, ch, "sleep")
	s.Yield(func() bool { return !s.Now().Before(until) }, "Sleep")
}
