//go:build go1.18

// Package vsync is the drop-in replacement for "sync" in instrumented code.
package vsync

import (
	"sync"

	"verif/engine/vsched"
)

type Locker = sync.Locker
type Map = sync.Map
type Pool = sync.Pool

func cur() (*vsched.Sched, *vsched.Thread) {
	s := vsched.S
	if s == nil {
		return nil, nil
	}
	return s, s.Running()
}

// Mutex: zero value is an unlocked mutex.
type Mutex struct {
	locked bool
	owner  *vsched.Thread
	so     vsched.SyncObj
}

func (m *Mutex) Lock() {
	s, t := cur()
	if s == nil {
		if m.locked {
			panic(vsched.CheckError{Msg: "vsync.Mutex contended outside an execution"})
		}
		m.locked = true
		return
	}
	if s.Unwinding(t) {
		return
	}
	s.Yield(func() bool { return !m.locked }, "Lock")
	m.locked = true
	m.owner = t
	t.Held++
	m.so.Acquire()
}

func (m *Mutex) TryLock() bool {
	s, t := cur()
	if s == nil {
		if m.locked {
			return false
		}
		m.locked = true
		return true
	}
	if s.Unwinding(t) {
		return true
	}
	s.Yield(nil, "TryLock")
	if m.locked {
		return false
	}
	m.locked = true
	m.owner = t
	t.Held++
	m.so.Acquire()
	return true
}

func (m *Mutex) Unlock() {
	s, t := cur()
	if s == nil {
		m.locked = false
		return
	}
	if !m.locked {
		if s.Unwinding(t) {
			return
		}
		panic("sync: unlock of unlocked mutex")
	}
	if s.Unwinding(t) {
		m.locked = false
		m.owner = nil
		return
	}
	if vsched.UnlockPoints {
		// the code under test uses TryLock somewhere: "the lock is held" is observable, so a thread
		// can be preempted inside a critical section (just before it releases)
		s.Yield(nil, "Unlock")
	}
	m.so.ReleaseReplace()
	m.locked = false
	if m.owner != nil {
		m.owner.Held--
	}
	m.owner = nil
}

// RWMutex with Go's writer preference: once a writer is blocked in Lock, new
// RLock calls wait until that writer has come and gone (this is what makes a
// recursive read lock deadlock when a writer arrives in between).
type RWMutex struct {
	w       bool
	wWait   int // writers blocked in Lock
	wOwner  *vsched.Thread
	readers int
	rOwners []*vsched.Thread
	so      vsched.SyncObj // released by writers and readers, acquired by writers
	wso     vsched.SyncObj // released by writers only, acquired by readers
}

func (m *RWMutex) Lock() {
	s, t := cur()
	if s == nil {
		if m.w || m.readers > 0 {
			panic(vsched.CheckError{Msg: "vsync.RWMutex contended outside an execution"})
		}
		m.w = true
		return
	}
	if s.Unwinding(t) {
		return
	}
	s.Yield(nil, "Lock")
	if m.w || m.readers > 0 {
		// announce the pending writer, then wait
		m.wWait++
		s.Yield(func() bool { return !m.w && m.readers == 0 }, "Lock(wait)")
		m.wWait--
	}
	m.w = true
	m.wOwner = t
	t.Held++
	m.so.Acquire()
}

func (m *RWMutex) TryLock() bool {
	s, t := cur()
	if s == nil {
		if m.w || m.readers > 0 {
			return false
		}
		m.w = true
		return true
	}
	if s.Unwinding(t) {
		return true
	}
	s.Yield(nil, "TryLock")
	if m.w || m.readers > 0 {
		return false
	}
	m.w = true
	m.wOwner = t
	t.Held++
	m.so.Acquire()
	return true
}

func (m *RWMutex) Unlock() {
	s, t := cur()
	if s == nil {
		m.w = false
		return
	}
	if !m.w {
		if s.Unwinding(t) {
			return
		}
		panic("sync: Unlock of unlocked RWMutex")
	}
	if s.Unwinding(t) {
		m.w = false
		m.wOwner = nil
		return
	}
	m.so.Release()
	m.wso.Release()
	m.w = false
	if m.wOwner != nil {
		m.wOwner.Held--
	}
	m.wOwner = nil
}

func (m *RWMutex) RLock() {
	s, t := cur()
	if s == nil {
		if m.w {
			panic(vsched.CheckError{Msg: "vsync.RWMutex contended outside an execution"})
		}
		m.readers++
		return
	}
	if s.Unwinding(t) {
		return
	}
	s.Yield(func() bool { return !m.w && m.wWait == 0 }, "RLock")
	m.readers++
	m.rOwners = append(m.rOwners, t)
	t.Held++
	m.wso.Acquire()
}

func (m *RWMutex) TryRLock() bool {
	s, t := cur()
	if s == nil {
		if m.w {
			return false
		}
		m.readers++
		return true
	}
	if s.Unwinding(t) {
		return true
	}
	s.Yield(nil, "TryRLock")
	if m.w {
		return false
	}
	m.readers++
	m.rOwners = append(m.rOwners, t)
	t.Held++
	m.wso.Acquire()
	return true
}

func (m *RWMutex) RUnlock() {
	s, t := cur()
	if s == nil {
		m.readers--
		return
	}
	if m.readers <= 0 {
		if s.Unwinding(t) {
			return
		}
		panic("sync: RUnlock of unlocked RWMutex")
	}
	if s.Unwinding(t) {
		m.readers--
		return
	}
	m.so.Release()
	m.readers--
	// The unlocking thread need not be the locking one; account to the running
	// thread if it holds a read lock, else to any holder.
	idx := -1
	for i, o := range m.rOwners {
		if o == t {
			idx = i
			break
		}
	}
	if idx < 0 && len(m.rOwners) > 0 {
		idx = 0
	}
	if idx >= 0 {
		m.rOwners[idx].Held--
		m.rOwners = append(m.rOwners[:idx], m.rOwners[idx+1:]...)
	}
}

type rlocker RWMutex

func (r *rlocker) Lock()   { (*RWMutex)(r).RLock() }
func (r *rlocker) Unlock() { (*RWMutex)(r).RUnlock() }

func (m *RWMutex) RLocker() Locker { return (*rlocker)(m) }

// Cond with FIFO wake-up order like the runtime's notify list.
type Cond struct {
	L       Locker
	waiters []*condWaiter
}

type condWaiter struct {
	signalled bool
	so        vsched.SyncObj
}

func NewCond(l Locker) *Cond { return &Cond{L: l} }

func (c *Cond) Wait() {
	s, t := cur()
	if s == nil {
		panic(vsched.CheckError{Msg: "vsync.Cond.Wait outside an execution"})
	}
	if s.Unwinding(t) {
		return
	}
	w := &condWaiter{}
	c.waiters = append(c.waiters, w)
	c.L.Unlock()
	s.Yield(func() bool { return w.signalled }, "Cond.Wait")
	w.so.Acquire()
	c.L.Lock()
}

func (c *Cond) Signal() {
	s, t := cur()
	if s == nil || s.Unwinding(t) {
		return
	}
	s.Yield(nil, "Cond.Signal")
	if len(c.waiters) > 0 {
		w := c.waiters[0]
		c.waiters = c.waiters[1:]
		w.so.Release()
		w.signalled = true
	}
}

func (c *Cond) Broadcast() {
	s, t := cur()
	if s == nil || s.Unwinding(t) {
		return
	}
	s.Yield(nil, "Cond.Broadcast")
	for _, w := range c.waiters {
		w.so.Release()
		w.signalled = true
	}
	c.waiters = nil
}

// WaitGroup.
type WaitGroup struct {
	n  int
	so vsched.SyncObj
}

func (wg *WaitGroup) Add(d int) {
	s, t := cur()
	if s != nil && !s.Unwinding(t) {
		s.Yield(nil, "WaitGroup.Add")
		wg.so.Release()
	}
	wg.n += d
	if wg.n < 0 {
		panic("sync: negative WaitGroup counter")
	}
}

func (wg *WaitGroup) Done() { wg.Add(-1) }

func (wg *WaitGroup) Wait() {
	s, t := cur()
	if s == nil {
		if wg.n != 0 {
			panic(vsched.CheckError{Msg: "vsync.WaitGroup.Wait would block outside an execution"})
		}
		return
	}
	if s.Unwinding(t) {
		return
	}
	s.Yield(func() bool { return wg.n == 0 }, "WaitGroup.Wait")
	wg.so.Acquire()
}

// Once.
type Once struct {
	m    Mutex
	done bool
}

func (o *Once) Do(f func()) {
	o.m.Lock()
	defer o.m.Unlock()
	if !o.done {
		defer func() { o.done = true }()
		f()
	}
}
