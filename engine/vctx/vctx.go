//go:build go1.18

// Package vctx is the drop-in replacement for "context" in instrumented code
// and the context factory of the harnesses: cancellation and deadlines are
// scheduler-visible events on the virtual clock.
package vctx

import (
	"context"
	"time"

	"verif/engine/vsched"
)

type Context = context.Context
type CancelFunc = context.CancelFunc
type CancelCauseFunc = context.CancelCauseFunc

var Canceled = context.Canceled
var DeadlineExceeded = context.DeadlineExceeded

func Background() Context { return context.Background() }
func TODO() Context       { return context.TODO() }

func WithValue(parent Context, key, val interface{}) Context {
	return context.WithValue(parent, key, val)
}

type vkeyT int

var vkey vkeyT

// vctx is a cancellable context on the virtual clock.
type vctx struct {
	parent   Context
	done     chan struct{}
	err      error
	cause    error
	deadline time.Time
	hasDL    bool
	children []*vctx
	timer    *vsched.VTimer
}

func (c *vctx) Deadline() (time.Time, bool) {
	if c.hasDL {
		return c.deadline, true
	}
	return c.parent.Deadline()
}
func (c *vctx) Done() <-chan struct{} { return c.done }
func (c *vctx) Err() error {
	if s := vsched.S; s != nil && !s.Unwinding(s.Running()) {
		s.Yield(nil, "ctx.Err")
		if c.err != nil {
			acquire(c)
		}
	}
	return c.err
}
func (c *vctx) Value(key interface{}) interface{} {
	if key == vkey {
		return c
	}
	return c.parent.Value(key)
}

var syncs = map[*vctx]*vsched.SyncObj{}
var syncsOwner *vsched.Sched

func so(c *vctx) *vsched.SyncObj {
	if syncsOwner != vsched.S {
		syncs = map[*vctx]*vsched.SyncObj{}
		syncsOwner = vsched.S
	}
	o := syncs[c]
	if o == nil {
		o = &vsched.SyncObj{}
		syncs[c] = o
	}
	return o
}
func acquire(c *vctx) { so(c).Acquire() }

func (c *vctx) cancel(err, cause error) {
	if c.err != nil {
		return
	}
	c.err = err
	if cause == nil {
		cause = err
	}
	c.cause = cause
	if s := vsched.S; s != nil {
		so(c).Release()
		s.MarkClosed(c.done)
		if c.timer != nil {
			s.StopTimer(c.timer)
		}
	}
	close(c.done)
	for _, ch := range c.children {
		ch.cancel(err, cause)
	}
}

func newCtx(parent Context) *vctx {
	if parent == nil {
		panic("cannot create context from nil parent")
	}
	c := &vctx{parent: parent, done: make(chan struct{})}
	if p, ok := parent.Value(vkey).(*vctx); ok {
		if p.err != nil {
			c.cancel(p.err, p.cause)
		} else {
			p.children = append(p.children, c)
		}
	} else if parent.Done() != nil {
		// A real cancellable parent: not supported under the scheduler.
		select {
		case <-parent.Done():
			c.cancel(parent.Err(), context.Cause(parent))
		default:
		}
	}
	return c
}

func yieldPoint(what string) {
	if s := vsched.S; s != nil && !s.Unwinding(s.Running()) {
		s.Yield(nil, what)
	}
}

func WithCancel(parent Context) (Context, CancelFunc) {
	c := newCtx(parent)
	return c, func() {
		yieldPoint("ctx.cancel")
		c.cancel(context.Canceled, nil)
	}
}

func WithCancelCause(parent Context) (Context, CancelCauseFunc) {
	c := newCtx(parent)
	return c, func(cause error) {
		yieldPoint("ctx.cancel")
		c.cancel(context.Canceled, cause)
	}
}

func WithDeadline(parent Context, d time.Time) (Context, CancelFunc) {
	return WithDeadlineCause(parent, d, nil)
}

func WithDeadlineCause(parent Context, d time.Time, cause error) (Context, CancelFunc) {
	if cur, ok := parent.Deadline(); ok && cur.Before(d) {
		return WithCancel(parent)
	}
	c := newCtx(parent)
	c.deadline, c.hasDL = d, true
	s := vsched.S
	if s == nil {
		panic(vsched.CheckError{Msg: "vctx.WithDeadline outside an execution"})
	}
	dur := d.Sub(s.Clock())
	if dur <= 0 {
		c.cancel(context.DeadlineExceeded, cause)
		return c, func() {}
	}
	if c.err == nil {
		// A channel-less, function-less timer: expiring it cancels the context
		// synchronously (no callback thread), see Sched.Expire hook below.
		c.timer = s.NewTimer(dur, 0, nil, nil, "ctx-deadline")
		c.timer.OnExpire = func() { c.cancel(context.DeadlineExceeded, cause) }
	}
	return c, func() {
		yieldPoint("ctx.cancel")
		c.cancel(context.Canceled, nil)
	}
}

func WithTimeout(parent Context, d time.Duration) (Context, CancelFunc) {
	s := vsched.S
	if s == nil {
		panic(vsched.CheckError{Msg: "vctx.WithTimeout outside an execution"})
	}
	return WithDeadline(parent, s.Clock().Add(d))
}

func WithTimeoutCause(parent Context, d time.Duration, cause error) (Context, CancelFunc) {
	s := vsched.S
	if s == nil {
		panic(vsched.CheckError{Msg: "vctx.WithTimeout outside an execution"})
	}
	return WithDeadlineCause(parent, s.Clock().Add(d), cause)
}

func Cause(c Context) error {
	if v, ok := c.Value(vkey).(*vctx); ok {
		return v.cause
	}
	return context.Cause(c)
}

func WithoutCancel(parent Context) Context { return context.WithoutCancel(parent) }

func AfterFunc(ctx Context, f func()) (stop func() bool) {
	panic(vsched.CheckError{Msg: "vctx.AfterFunc is not supported by the scheduler"})
}
