package vsched_test

import (
	"fmt"
	"testing"

	"verif/engine/vatomic"
	"verif/engine/vsched"
	"verif/engine/vsync"
)

func TestLostUpdate(t *testing.T) {
	for bound := 0; bound <= 2; bound++ {
		res := vsched.Explore(vsched.ExploreOpts{Name: "lost", PreemptBound: bound, Race: true}, func(s *vsched.Sched) *vsched.ExecOutcome {
			var x int32
			for i := 0; i < 2; i++ {
				s.Go("inc", func() {
					v := vatomic.LoadInt32(&x)
					vatomic.StoreInt32(&x, v+1)
				})
			}
			s.WaitQuiescent()
			return &vsched.ExecOutcome{Outcome: fmt.Sprint(x), StateKey: fmt.Sprint(x)}
		})
		t.Logf("bound %d: execs=%d outcomes=%v", bound, res.Stats.Execs, res.Stats.Outcomes)
		if bound >= 1 && res.Stats.Outcomes["1"] == 0 {
			t.Fatalf("lost update not found at bound %d", bound)
		}
		if bound == 0 && res.Stats.Outcomes["1"] != 0 {
			t.Fatalf("lost update found without preemption")
		}
	}
}

func TestDeadlockAndRace(t *testing.T) {
	res := vsched.Explore(vsched.ExploreOpts{Name: "dl", PreemptBound: 2, Race: true}, func(s *vsched.Sched) *vsched.ExecOutcome {
		var a, b vsync.Mutex
		var shared int
		s.Go("t1", func() {
			a.Lock()
			b.Lock()
			*vsched.W(&shared, "t1.shared") = 1
			b.Unlock()
			a.Unlock()
		})
		s.Go("t2", func() {
			b.Lock()
			a.Lock()
			_ = *vsched.R(&shared, "t2.shared")
			a.Unlock()
			b.Unlock()
		})
		s.WaitQuiescent()
		out := "ok"
		if len(s.Alive()) > 0 {
			out = "deadlock"
		}
		return &vsched.ExecOutcome{Outcome: out, StateKey: out}
	})
	t.Logf("execs=%d outcomes=%v viol=%d", res.Stats.Execs, res.Stats.Outcomes, len(res.Violations))
	if res.Stats.Outcomes["deadlock"] == 0 {
		t.Fatal("deadlock not found")
	}
	for k := range res.Violations {
		t.Log(k)
	}
	// t2 reads shared after releasing b which t1 released after writing: when t1 runs first it is ordered;
	// when t2 runs first, t2's read is before t1's write with t2's unlock(b) -> t1's lock(b): ordered as well.
	if len(res.Violations) != 0 {
		t.Fatal("unexpected race")
	}
}

func TestRaceFound(t *testing.T) {
	res := vsched.Explore(vsched.ExploreOpts{Name: "race", PreemptBound: 1, Race: true}, func(s *vsched.Sched) *vsched.ExecOutcome {
		var m vsync.Mutex
		var shared int
		s.Go("t1", func() {
			m.Lock()
			*vsched.W(&shared, "t1.shared") = 1
			m.Unlock()
		})
		s.Go("t2", func() {
			_ = *vsched.R(&shared, "t2.shared")
			m.Lock()
			m.Unlock()
		})
		s.WaitQuiescent()
		return &vsched.ExecOutcome{Outcome: "x", StateKey: "x"}
	})
	if len(res.Violations) != 1 {
		t.Fatalf("want 1 race, got %d", len(res.Violations))
	}
	for k, v := range res.Violations {
		t.Log(k, v.Cost, v.Choices)
	}
}

func TestCond(t *testing.T) {
	res := vsched.Explore(vsched.ExploreOpts{Name: "cond", PreemptBound: 2}, func(s *vsched.Sched) *vsched.ExecOutcome {
		var m vsync.Mutex
		c := vsync.NewCond(&m)
		ready := false
		s.Go("waiter", func() {
			m.Lock()
			for !ready {
				c.Wait()
			}
			m.Unlock()
		})
		s.Go("setter", func() {
			m.Lock()
			ready = true
			m.Unlock()
			c.Broadcast()
		})
		s.WaitQuiescent()
		out := "ok"
		if len(s.Alive()) > 0 {
			out = "stuck"
		}
		return &vsched.ExecOutcome{Outcome: out, StateKey: out}
	})
	t.Logf("execs=%d outcomes=%v", res.Stats.Execs, res.Stats.Outcomes)
	if res.Stats.Outcomes["stuck"] != 0 {
		t.Fatal("cond lost wakeup")
	}
}
