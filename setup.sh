#!/bin/bash
# Builds the verification tools from files on disk only and warms the Go build cache.
set -e
cd "$(dirname "$0")"
export GOFLAGS=-mod=mod GOPROXY=off GOSUMDB=off GOTOOLCHAIN=local
mkdir -p bin build evidence replays
go build -o bin/vinstr ./cmd/vinstr
go vet ./engine/... >/dev/null
# warm the cache: one throw-away build of each harness
for id in C13 C01; do
  python3 - "$id" <<'PY' || true
import sys, os, shutil, time
sys.argv = ['vcheck', sys.argv[1]]
sys.path.insert(0, os.getcwd())
import importlib.machinery, importlib.util
loader = importlib.machinery.SourceFileLoader('vcheck_mod', os.path.join(os.getcwd(), 'vcheck'))
spec = importlib.util.spec_from_loader('vcheck_mod', loader)
m = importlib.util.module_from_spec(spec); loader.exec_module(m)
from checks import CHECKS
bdir = os.path.join(os.getcwd(), 'build', 'warm-%s-%d' % (sys.argv[1], os.getpid()))
try:
    s = dict(CHECKS[sys.argv[1]]); s['_extra_overlay'] = []
    m.build(s, bdir)
finally:
    shutil.rmtree(bdir, ignore_errors=True)
PY
done
echo setup done
