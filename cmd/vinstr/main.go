// vinstr rewrites the non-test Go files of one package so that every
// synchronisation operation, goroutine start, channel wait, clock reading and
// (optionally) every access to a field of a package-declared struct goes
// through the verification engine. It never writes under the source directory.
//
// usage: vinstr -dir <pkg dir> -out <dir> -shim <import path prefix of shims> [-access] [-vgrpc file1.go,file2.go]
// prints a JSON object {"files": {"<abs original>": "<abs rewritten>"}} on stdout.
package main

import (
	"bytes"
	"encoding/json"
	"flag"
	"fmt"
	"go/ast"
	"go/format"
	"go/importer"
	"go/parser"
	"go/token"
	"go/types"
	"io"
	"os"
	"os/exec"
	"path/filepath"
	"strconv"
	"strings"

	"golang.org/x/tools/go/ast/astutil"
)

var shimPkgs = map[string]string{
	"sync":        "vsync",
	"sync/atomic": "vatomic",
	"time":        "vtime",
	"context":     "vctx",
}

func fatal(f string, a ...interface{}) {
	fmt.Fprintf(os.Stderr, "CHECK-ERROR vinstr: "+f+"\n", a...)
	os.Exit(2)
}

type listPkg struct {
	ImportPath string
	Dir        string
	Export     string
	GoFiles    []string
	Name       string
	DepOnly    bool
}

func main() {
	dir := flag.String("dir", "", "package directory")
	out := flag.String("out", "", "output directory")
	shim := flag.String("shim", "", "import path prefix of the shim packages")
	access := flag.Bool("access", false, "instrument field and map accesses for the race detector")
	vgrpc := flag.String("vgrpc", "", "comma-separated base names of files whose google.golang.org/grpc import is replaced by the vgrpc shim")
	modfile := flag.String("modfile", "", "alternative go.mod")
	flag.Parse()
	if *dir == "" || *out == "" || *shim == "" {
		fatal("missing flags")
	}
	vgrpcFiles := map[string]bool{}
	for _, f := range strings.Split(*vgrpc, ",") {
		if f != "" {
			vgrpcFiles[f] = true
		}
	}
	if err := os.MkdirAll(*out, 0o755); err != nil {
		fatal("%v", err)
	}

	// 1. package metadata and export data of dependencies
	args := []string{"list", "-export", "-deps", "-json"}
	if *modfile != "" {
		args = append(args, "-modfile="+*modfile)
	}
	args = append(args, ".")
	cmd := exec.Command("go", args...)
	cmd.Dir = *dir
	cmd.Stderr = os.Stderr
	outb, err := cmd.Output()
	if err != nil {
		fatal("go list failed: %v", err)
	}
	exports := map[string]string{}
	var target *listPkg
	dec := json.NewDecoder(bytes.NewReader(outb))
	for {
		var p listPkg
		if err := dec.Decode(&p); err == io.EOF {
			break
		} else if err != nil {
			fatal("decoding go list output: %v", err)
		}
		if p.Export != "" {
			exports[p.ImportPath] = p.Export
		}
		if !p.DepOnly {
			pp := p
			target = &pp
		}
	}
	if target == nil {
		fatal("no target package in go list output")
	}

	// 2. parse + type-check
	fset := token.NewFileSet()
	var files []*ast.File
	var names []string
	for _, gf := range target.GoFiles {
		path := filepath.Join(target.Dir, gf)
		f, err := parser.ParseFile(fset, path, nil, parser.ParseComments)
		if err != nil {
			fatal("parse %s: %v", path, err)
		}
		files = append(files, f)
		names = append(names, path)
	}
	imp := importer.ForCompiler(fset, "gc", func(path string) (io.ReadCloser, error) {
		e, ok := exports[path]
		if !ok {
			return nil, fmt.Errorf("no export data for %q", path)
		}
		return os.Open(e)
	})
	info := &types.Info{
		Types:      map[ast.Expr]types.TypeAndValue{},
		Uses:       map[*ast.Ident]types.Object{},
		Defs:       map[*ast.Ident]types.Object{},
		Selections: map[*ast.SelectorExpr]*types.Selection{},
	}
	conf := types.Config{Importer: imp}
	pkg, err := conf.Check(target.ImportPath, fset, files, info)
	if err != nil {
		fatal("type-check: %v", err)
	}

	res := map[string]string{}
	for i, f := range files {
		r := &rewriter{fset: fset, info: info, pkg: pkg, shim: *shim, access: *access, file: f}
		r.vgrpc = vgrpcFiles[filepath.Base(names[i])]
		r.run()
		var buf bytes.Buffer
		if err := format.Node(&buf, fset, f); err != nil {
			fatal("print %s: %v", names[i], err)
		}
		dst := filepath.Join(*out, filepath.Base(names[i]))
		if err := os.WriteFile(dst, withGo118(buf.Bytes()), 0o644); err != nil {
			fatal("%v", err)
		}
		res[names[i]] = dst
	}
	json.NewEncoder(os.Stdout).Encode(map[string]interface{}{"files": res, "package": target.ImportPath, "name": target.Name})
}

// withGo118 lifts the language version of the rewritten file (the module may
// declare an old one; the generated code uses generic helper functions).
func withGo118(src []byte) []byte {
	lines := strings.Split(string(src), "\n")
	for i, l := range lines {
		if strings.HasPrefix(l, "package ") {
			break
		}
		if strings.HasPrefix(l, "//go:build ") {
			lines[i] = "//go:build (" + strings.TrimPrefix(l, "//go:build ") + ") && go1.18"
			return []byte(strings.Join(lines, "\n"))
		}
	}
	return []byte("//go:build go1.18\n\n" + string(src))
}

type rewriter struct {
	fset   *token.FileSet
	info   *types.Info
	pkg    *types.Package
	shim   string
	access bool
	vgrpc  bool
	file   *ast.File
	tmp    int
	needVs bool

	// marks from the analysis pass
	selWrite map[*ast.SelectorExpr]bool
	selSkip  map[*ast.SelectorExpr]bool
	selSite  map[*ast.SelectorExpr]string
	idxWrite map[*ast.IndexExpr]bool
	idxRead  map[*ast.IndexExpr]bool
	// slice elements: x[i] read / written, &x[i] (skipped), append calls, range loops over slices
	elemWrite  map[*ast.IndexExpr]bool
	elemSkip   map[*ast.IndexExpr]bool
	elemSite   map[*ast.IndexExpr]string
	appendCall map[*ast.CallExpr]string
	rangeSlice map[*ast.RangeStmt]string
	callMapRW  map[*ast.CallExpr]string // "r" or "w": len/delete on a map
	rangeMap   map[*ast.RangeStmt]bool
	mapSite    map[ast.Node]string
	commRecv   map[*ast.UnaryExpr]bool // receives that belong to select comm clauses
	builtinCls map[*ast.CallExpr]bool
}

func (r *rewriter) name(p string) string {
	r.tmp++
	return fmt.Sprintf("_vz%s%d", p, r.tmp)
}

func (r *rewriter) vs(fn string) ast.Expr {
	r.needVs = true
	return &ast.SelectorExpr{X: ast.NewIdent("_vsched"), Sel: ast.NewIdent(fn)}
}

func lit(s string) ast.Expr { return &ast.BasicLit{Kind: token.STRING, Value: strconv.Quote(s)} }

func (r *rewriter) run() {
	// comments: keep only directive comments before the package clause
	var keep []*ast.CommentGroup
	for _, cg := range r.file.Comments {
		if cg.End() < r.file.Package {
			var l []*ast.Comment
			for _, c := range cg.List {
				if strings.HasPrefix(c.Text, "//go:build") || strings.HasPrefix(c.Text, "// +build") {
					l = append(l, c)
				}
			}
			if len(l) > 0 {
				keep = append(keep, &ast.CommentGroup{List: l})
			}
		}
	}
	r.file.Comments = keep
	r.file.Doc = nil
	ast.Inspect(r.file, func(n ast.Node) bool {
		switch x := n.(type) {
		case *ast.FuncDecl:
			x.Doc = nil
		case *ast.GenDecl:
			x.Doc = nil
		case *ast.TypeSpec:
			x.Doc, x.Comment = nil, nil
		case *ast.ValueSpec:
			x.Doc, x.Comment = nil, nil
		case *ast.Field:
			x.Doc, x.Comment = nil, nil
		case *ast.ImportSpec:
			x.Doc, x.Comment = nil, nil
		}
		return true
	})

	r.analyse()
	r.rewriteImports()
	r.rewriteBody()
	// TryLock makes "the lock is held right now" observable: unlocks become scheduling points
	usesTry := false
	ast.Inspect(r.file, func(n ast.Node) bool {
		if call, ok := n.(*ast.CallExpr); ok {
			if sel, ok := call.Fun.(*ast.SelectorExpr); ok && (sel.Sel.Name == "TryLock" || sel.Sel.Name == "TryRLock") {
				usesTry = true
			}
		}
		return true
	})
	if usesTry {
		r.file.Decls = append(r.file.Decls, &ast.FuncDecl{Name: ast.NewIdent("init"), Type: &ast.FuncType{Params: &ast.FieldList{}},
			Body: &ast.BlockStmt{List: []ast.Stmt{&ast.AssignStmt{Lhs: []ast.Expr{r.vs("UnlockPoints")}, Tok: token.ASSIGN, Rhs: []ast.Expr{ast.NewIdent("true")}}}}})
	}
	if r.needVs {
		r.addImport("_vsched", r.shim+"/vsched")
	}
}

func (r *rewriter) rewriteImports() {
	for _, is := range r.file.Imports {
		p, _ := strconv.Unquote(is.Path.Value)
		if sh, ok := shimPkgs[p]; ok {
			if is.Name == nil {
				base := p
				if i := strings.LastIndex(p, "/"); i >= 0 {
					base = p[i+1:]
				}
				is.Name = ast.NewIdent(base)
			}
			is.Path.Value = strconv.Quote(r.shim + "/" + sh)
			is.EndPos = 0
		}
		if p == "google.golang.org/grpc" && r.vgrpc {
			if is.Name == nil {
				is.Name = ast.NewIdent("grpc")
			}
			is.Path.Value = strconv.Quote(r.shim + "/vgrpc")
			is.EndPos = 0
		}
	}
}

func (r *rewriter) addImport(name, path string) {
	spec := &ast.ImportSpec{Name: ast.NewIdent(name), Path: &ast.BasicLit{Kind: token.STRING, Value: strconv.Quote(path)}}
	decl := &ast.GenDecl{Tok: token.IMPORT, Specs: []ast.Spec{spec}}
	r.file.Decls = append([]ast.Decl{decl}, r.file.Decls...)
	r.file.Imports = append(r.file.Imports, spec)
}

// isShimmedNamed: a field that IS a sync / sync/atomic value (its methods take
// its address; the shim orders the accesses itself). A field that merely points
// to one (*sync.Cond, *sync.Mutex) is ordinary memory and is tracked.
func isShimmedNamed(t types.Type) bool {
	if n, ok := t.(*types.Named); ok && n.Obj().Pkg() != nil {
		switch n.Obj().Pkg().Path() {
		case "sync", "sync/atomic":
			return true
		}
	}
	return false
}

func unparen(e ast.Expr) ast.Expr {
	for {
		p, ok := e.(*ast.ParenExpr)
		if !ok {
			return e
		}
		e = p.X
	}
}

func (r *rewriter) isSlice(e ast.Expr) bool {
	tv, ok := r.info.Types[e]
	if !ok || tv.Type == nil {
		return false
	}
	_, is := tv.Type.Underlying().(*types.Slice)
	return is
}

// for i, v := range s { B }  =>  { _vs := s; for i, v := range _vs { _vsched.R(&_vs[i], site); B } }
// (only when an element value is read by the loop)
func (r *rewriter) rangeSliceStmt(x *ast.RangeStmt, site string) ast.Stmt {
	isBlank := func(e ast.Expr) bool {
		if e == nil {
			return true
		}
		id, ok := e.(*ast.Ident)
		return ok && id.Name == "_"
	}
	if isBlank(x.Value) {
		return nil
	}
	vs := r.name("s")
	var key ast.Expr
	if isBlank(x.Key) {
		if x.Tok != token.DEFINE {
			return nil // for _, v = range s with existing variables: left alone
		}
		k := r.name("i")
		x.Key = ast.NewIdent(k)
		key = ast.NewIdent(k)
	} else {
		id, ok := x.Key.(*ast.Ident)
		if !ok {
			return nil
		}
		key = ast.NewIdent(id.Name)
	}
	hoist := &ast.AssignStmt{Lhs: []ast.Expr{ast.NewIdent(vs)}, Tok: token.DEFINE, Rhs: []ast.Expr{x.X}}
	x.X = ast.NewIdent(vs)
	rd := &ast.ExprStmt{X: &ast.CallExpr{Fun: r.vs("R"), Args: []ast.Expr{
		&ast.UnaryExpr{Op: token.AND, X: &ast.IndexExpr{X: ast.NewIdent(vs), Index: key}}, lit(site)}}}
	x.Body.List = append([]ast.Stmt{rd}, x.Body.List...)
	return &ast.BlockStmt{List: []ast.Stmt{hoist, x}}
}

func (r *rewriter) isMap(e ast.Expr) bool {
	tv, ok := r.info.Types[e]
	if !ok || tv.Type == nil {
		return false
	}
	_, m := tv.Type.Underlying().(*types.Map)
	return m
}

func recvName(fd *ast.FuncDecl) string {
	if fd.Recv == nil || len(fd.Recv.List) == 0 {
		return fd.Name.Name
	}
	t := fd.Recv.List[0].Type
	if s, ok := t.(*ast.StarExpr); ok {
		t = s.X
	}
	if id, ok := t.(*ast.Ident); ok {
		return id.Name + "." + fd.Name.Name
	}
	return fd.Name.Name
}

// analyse marks, using type information on the untouched AST, what the
// rewriting pass has to do.
func (r *rewriter) analyse() {
	r.selWrite = map[*ast.SelectorExpr]bool{}
	r.selSkip = map[*ast.SelectorExpr]bool{}
	r.selSite = map[*ast.SelectorExpr]string{}
	r.idxWrite = map[*ast.IndexExpr]bool{}
	r.idxRead = map[*ast.IndexExpr]bool{}
	r.elemWrite = map[*ast.IndexExpr]bool{}
	r.elemSkip = map[*ast.IndexExpr]bool{}
	r.elemSite = map[*ast.IndexExpr]string{}
	r.appendCall = map[*ast.CallExpr]string{}
	r.rangeSlice = map[*ast.RangeStmt]string{}
	r.callMapRW = map[*ast.CallExpr]string{}
	r.rangeMap = map[*ast.RangeStmt]bool{}
	r.mapSite = map[ast.Node]string{}
	r.commRecv = map[*ast.UnaryExpr]bool{}
	r.builtinCls = map[*ast.CallExpr]bool{}

	for _, d := range r.file.Decls {
		fd, ok := d.(*ast.FuncDecl)
		fn := "init"
		var root ast.Node = d
		if ok {
			if fd.Body == nil {
				continue
			}
			fn = recvName(fd)
			root = fd.Body
		}
		r.analyseNode(root, fn)
	}
}

func (r *rewriter) markLHS(e ast.Expr) {
	e = unparen(e)
	switch x := e.(type) {
	case *ast.SelectorExpr:
		r.selWrite[x] = true
	case *ast.IndexExpr:
		if r.isMap(x.X) {
			r.idxWrite[x] = true
		} else if r.isSlice(x.X) {
			r.elemWrite[x] = true
		}
	}
}

func (r *rewriter) analyseNode(root ast.Node, fn string) {
	ast.Inspect(root, func(n ast.Node) bool {
		switch x := n.(type) {
		case *ast.AssignStmt:
			for _, l := range x.Lhs {
				r.markLHS(l)
			}
		case *ast.IncDecStmt:
			r.markLHS(x.X)
		case *ast.UnaryExpr:
			if x.Op == token.AND {
				if s, ok := unparen(x.X).(*ast.SelectorExpr); ok {
					r.selSkip[s] = true
				}
				if ix, ok := unparen(x.X).(*ast.IndexExpr); ok {
					r.elemSkip[ix] = true
				}
			}
		case *ast.SelectStmt:
			for _, c := range x.Body.List {
				cc := c.(*ast.CommClause)
				switch s := cc.Comm.(type) {
				case nil:
				case *ast.ExprStmt:
					if u, ok := unparen(s.X).(*ast.UnaryExpr); ok && u.Op == token.ARROW {
						r.commRecv[u] = true
					} else {
						fatal("%s: unsupported select case", r.fset.Position(cc.Pos()))
					}
				case *ast.AssignStmt:
					if len(s.Rhs) == 1 {
						if u, ok := unparen(s.Rhs[0]).(*ast.UnaryExpr); ok && u.Op == token.ARROW {
							r.commRecv[u] = true
							break
						}
					}
					fatal("%s: unsupported select case", r.fset.Position(cc.Pos()))
				default:
					fatal("%s: send cases in select are not supported by the scheduler", r.fset.Position(cc.Pos()))
				}
			}
		case *ast.SendStmt:
			fatal("%s: channel send statements are not supported by the scheduler", r.fset.Position(x.Pos()))
		case *ast.RangeStmt:
			tv := r.info.Types[x.X]
			if tv.Type != nil {
				switch tv.Type.Underlying().(type) {
				case *types.Slice:
					r.rangeSlice[x] = r.exprName(x.X) + "[range]@" + fn
				case *types.Map:
					r.rangeMap[x] = true
					r.mapSite[x] = "range@" + fn
				case *types.Chan:
					fatal("%s: range over a channel is not supported by the scheduler", r.fset.Position(x.Pos()))
				}
			}
		case *ast.CallExpr:
			if id, ok := unparen(x.Fun).(*ast.Ident); ok {
				if _, isB := r.info.Uses[id].(*types.Builtin); isB {
					switch id.Name {
					case "close":
						r.builtinCls[x] = true
					case "append":
						if len(x.Args) >= 2 && r.isSlice(x.Args[0]) && !(x.Ellipsis != token.NoPos && !r.isSlice(x.Args[1])) {
							r.appendCall[x] = r.exprName(x.Args[0]) + "[append]@" + fn
						}
					case "len":
						if len(x.Args) == 1 && r.isMap(x.Args[0]) {
							r.callMapRW[x] = "r"
							r.mapSite[x] = "len@" + fn
						}
					case "delete":
						if len(x.Args) == 2 && r.isMap(x.Args[0]) {
							r.callMapRW[x] = "w"
							r.mapSite[x] = "delete@" + fn
						}
					}
				}
			}
		case *ast.IndexExpr:
			if r.isMap(x.X) {
				if !r.idxWrite[x] {
					r.idxRead[x] = true
				}
				r.mapSite[x] = r.exprName(x.X) + "[]@" + fn
			} else if r.isSlice(x.X) {
				r.elemSite[x] = r.exprName(x.X) + "[i]@" + fn
			}
		case *ast.SelectorExpr:
			sel := r.info.Selections[x]
			if sel == nil || sel.Kind() != types.FieldVal {
				return true
			}
			fld, ok := sel.Obj().(*types.Var)
			if !ok || fld.Pkg() != r.pkg {
				return true
			}
			if isShimmedNamed(fld.Type()) {
				r.selSkip[x] = true
				return true
			}
			tv := r.info.Types[x]
			if !tv.Addressable() {
				r.selSkip[x] = true
				return true
			}
			recv := sel.Recv()
			if p, ok := recv.(*types.Pointer); ok {
				recv = p.Elem()
			}
			tn := "?"
			if nt, ok := recv.(*types.Named); ok {
				tn = nt.Obj().Name()
			}
			r.selSite[x] = tn + "." + fld.Name() + "@" + fn
		}
		return true
	})
}

func (r *rewriter) exprName(e ast.Expr) string {
	switch x := unparen(e).(type) {
	case *ast.SelectorExpr:
		return x.Sel.Name
	case *ast.Ident:
		return x.Name
	}
	return "map"
}

func (r *rewriter) rewriteBody() {
	astutil.Apply(r.file, nil, func(c *astutil.Cursor) bool {
		switch x := c.Node().(type) {
		case *ast.GoStmt:
			c.Replace(r.goStmt(x))
		case *ast.SelectStmt:
			if _, lab := c.Parent().(*ast.LabeledStmt); lab {
				fatal("%s: labeled select is not supported by the scheduler", r.fset.Position(x.Pos()))
			}
			c.Replace(r.selectStmt(x))
		case *ast.CallExpr:
			if r.builtinCls[x] {
				x.Fun = r.vs("Close")
			}
			if site, ok := r.appendCall[x]; ok && r.access {
				// append(s, a, b)  =>  append(_vsched.AppendW(s, 2, site), a, b)
				// append(s, t...)  =>  append(_vsched.AppendW(s, len(t), site), t...)   (t an identifier or selector)
				var n ast.Expr = &ast.BasicLit{Kind: token.INT, Value: strconv.Itoa(len(x.Args) - 1)}
				okToWrap := true
				if x.Ellipsis != token.NoPos {
					switch unparen(x.Args[1]).(type) {
					case *ast.Ident, *ast.SelectorExpr:
						n = &ast.CallExpr{Fun: ast.NewIdent("len"), Args: []ast.Expr{x.Args[1]}}
					default:
						okToWrap = false
					}
				}
				if _, fresh := unparen(x.Args[0]).(*ast.CompositeLit); fresh {
					okToWrap = false // a fresh backing array shares nothing
				}
				if okToWrap {
					x.Args[0] = &ast.CallExpr{Fun: r.vs("AppendW"), Args: []ast.Expr{x.Args[0], n, lit(site)}}
				}
			}
			if rw, ok := r.callMapRW[x]; ok && r.access {
				fn := "MR"
				if rw == "w" {
					fn = "MW"
				}
				x.Args[0] = &ast.CallExpr{Fun: r.vs(fn), Args: []ast.Expr{x.Args[0], lit(r.mapSite[x])}}
			}
		case *ast.UnaryExpr:
			if x.Op == token.ARROW && !r.commRecv[x] {
				// plain receive: statement, single-value or comma-ok context
				two := false
				if as, ok := c.Parent().(*ast.AssignStmt); ok && len(as.Lhs) == 2 && len(as.Rhs) == 1 {
					two = true
				}
				if vs, ok := c.Parent().(*ast.ValueSpec); ok && len(vs.Names) == 2 && len(vs.Values) == 1 {
					two = true
				}
				fn := "Recv1"
				if two {
					fn = "Recv"
				}
				c.Replace(&ast.CallExpr{Fun: r.vs(fn), Args: []ast.Expr{x.X}})
			}
		case *ast.RangeStmt:
			if r.rangeMap[x] {
				r.rangeStmt(x)
			}
			if site, ok := r.rangeSlice[x]; ok && r.access {
				if _, labeled := c.Parent().(*ast.LabeledStmt); !labeled {
					if blk := r.rangeSliceStmt(x, site); blk != nil {
						c.Replace(blk)
					}
				}
			}
		case *ast.IndexExpr:
			if !r.access {
				break
			}
			if r.idxWrite[x] {
				x.X = &ast.CallExpr{Fun: r.vs("MW"), Args: []ast.Expr{x.X, lit(r.mapSite[x])}}
			} else if r.idxRead[x] {
				x.X = &ast.CallExpr{Fun: r.vs("MR"), Args: []ast.Expr{x.X, lit(r.mapSite[x])}}
			} else if site, ok := r.elemSite[x]; ok && !r.elemSkip[x] {
				fn := "R"
				if r.elemWrite[x] {
					fn = "W"
				}
				call := &ast.CallExpr{Fun: r.vs(fn), Args: []ast.Expr{&ast.UnaryExpr{Op: token.AND, X: x}, lit(site)}}
				c.Replace(&ast.ParenExpr{X: &ast.StarExpr{X: call}})
			}
		case *ast.SelectorExpr:
			if !r.access {
				break
			}
			site, ok := r.selSite[x]
			if !ok || r.selSkip[x] {
				break
			}
			fn := "R"
			if r.selWrite[x] {
				fn = "W"
			}
			call := &ast.CallExpr{Fun: r.vs(fn), Args: []ast.Expr{&ast.UnaryExpr{Op: token.AND, X: x}, lit(site)}}
			c.Replace(&ast.ParenExpr{X: &ast.StarExpr{X: call}})
		}
		return true
	})
}

// go f(a, b)  =>  { _f := f; _a := a; _b := b; _vsched.Spawn("site", func() { _f(_a, _b) }) }
func (r *rewriter) goStmt(g *ast.GoStmt) ast.Stmt {
	call := g.Call
	var pre []ast.Stmt
	define := func(e ast.Expr, p string) ast.Expr {
		id := r.name(p)
		pre = append(pre, &ast.AssignStmt{Lhs: []ast.Expr{ast.NewIdent(id)}, Tok: token.DEFINE, Rhs: []ast.Expr{e}})
		return ast.NewIdent(id)
	}
	site := "go"
	switch f := unparen(call.Fun).(type) {
	case *ast.SelectorExpr:
		site = "go " + f.Sel.Name
	case *ast.Ident:
		site = "go " + f.Name
	case *ast.FuncLit:
		site = "go func"
	}
	// builtins / conversions cannot be bound to a variable
	if id, ok := unparen(call.Fun).(*ast.Ident); ok {
		if _, isB := r.info.Uses[id].(*types.Builtin); isB {
			fatal("%s: go statement with a builtin is not supported", r.fset.Position(g.Pos()))
		}
	}
	fun := define(call.Fun, "f")
	var args []ast.Expr
	for _, a := range call.Args {
		args = append(args, define(a, "a"))
	}
	inner := &ast.CallExpr{Fun: fun, Args: args, Ellipsis: call.Ellipsis}
	if call.Ellipsis != token.NoPos {
		inner.Ellipsis = 1
	}
	spawn := &ast.ExprStmt{X: &ast.CallExpr{Fun: r.vs("Spawn"), Args: []ast.Expr{lit(site),
		&ast.FuncLit{Type: &ast.FuncType{Params: &ast.FieldList{}}, Body: &ast.BlockStmt{List: []ast.Stmt{&ast.ExprStmt{X: inner}}}}}}}
	return &ast.BlockStmt{List: append(pre, spawn)}
}

func (r *rewriter) selectStmt(s *ast.SelectStmt) ast.Stmt {
	var pre []ast.Stmt
	var chans []ast.Expr
	var cases []ast.Stmt
	hasDefault := false
	for _, c := range s.Body.List {
		cc := c.(*ast.CommClause)
		if cc.Comm == nil {
			hasDefault = true
			cases = append(cases, &ast.CaseClause{List: []ast.Expr{&ast.UnaryExpr{Op: token.SUB, X: &ast.BasicLit{Kind: token.INT, Value: "1"}}}, Body: cc.Body})
			continue
		}
		idx := len(chans)
		var u *ast.UnaryExpr
		var comm ast.Stmt
		switch st := cc.Comm.(type) {
		case *ast.ExprStmt:
			u = unparen(st.X).(*ast.UnaryExpr)
			comm = st
		case *ast.AssignStmt:
			u = unparen(st.Rhs[0]).(*ast.UnaryExpr)
			comm = st
		}
		id := r.name("c")
		pre = append(pre, &ast.AssignStmt{Lhs: []ast.Expr{ast.NewIdent(id)}, Tok: token.DEFINE, Rhs: []ast.Expr{u.X}})
		u.X = ast.NewIdent(id)
		chans = append(chans, ast.NewIdent(id))
		body := append([]ast.Stmt{comm}, cc.Body...)
		cases = append(cases, &ast.CaseClause{List: []ast.Expr{&ast.BasicLit{Kind: token.INT, Value: strconv.Itoa(idx)}}, Body: body})
	}
	hd := "false"
	if hasDefault {
		hd = "true"
	}
	args := append([]ast.Expr{ast.NewIdent(hd)}, chans...)
	sw := &ast.SwitchStmt{Tag: &ast.CallExpr{Fun: r.vs("Select"), Args: args}, Body: &ast.BlockStmt{List: cases}}
	return &ast.BlockStmt{List: append(pre, sw)}
}

// for k, v := range m { B }  =>
// for _, _it := range _vsched.MapIter(m) { v, _ok := _it.Get(); if !_ok { continue }; k := _it.K; B }
func (r *rewriter) rangeStmt(x *ast.RangeStmt) {
	it := r.name("it")
	okv := r.name("ok")
	var pre []ast.Stmt
	isBlank := func(e ast.Expr) bool {
		if e == nil {
			return true
		}
		id, ok := e.(*ast.Ident)
		return ok && id.Name == "_"
	}
	tok := x.Tok
	if tok == token.ILLEGAL {
		tok = token.DEFINE
	}
	itSel := func(n string) ast.Expr { return &ast.SelectorExpr{X: ast.NewIdent(it), Sel: ast.NewIdent(n)} }
	if !isBlank(x.Value) {
		if tok == token.DEFINE {
			pre = append(pre, &ast.AssignStmt{Lhs: []ast.Expr{x.Value, ast.NewIdent(okv)}, Tok: token.DEFINE,
				Rhs: []ast.Expr{&ast.CallExpr{Fun: itSel("Get")}}})
		} else {
			tv := r.name("v")
			pre = append(pre, &ast.AssignStmt{Lhs: []ast.Expr{ast.NewIdent(tv), ast.NewIdent(okv)}, Tok: token.DEFINE,
				Rhs: []ast.Expr{&ast.CallExpr{Fun: itSel("Get")}}})
			pre = append(pre, &ast.IfStmt{Cond: &ast.UnaryExpr{Op: token.NOT, X: ast.NewIdent(okv)}, Body: &ast.BlockStmt{List: []ast.Stmt{&ast.BranchStmt{Tok: token.CONTINUE}}}})
			pre = append(pre, &ast.AssignStmt{Lhs: []ast.Expr{x.Value}, Tok: token.ASSIGN, Rhs: []ast.Expr{ast.NewIdent(tv)}})
			okv = ""
		}
		if okv != "" {
			pre = append(pre, &ast.IfStmt{Cond: &ast.UnaryExpr{Op: token.NOT, X: ast.NewIdent(okv)}, Body: &ast.BlockStmt{List: []ast.Stmt{&ast.BranchStmt{Tok: token.CONTINUE}}}})
		}
	} else {
		pre = append(pre, &ast.IfStmt{Cond: &ast.UnaryExpr{Op: token.NOT, X: &ast.CallExpr{Fun: itSel("Live")}}, Body: &ast.BlockStmt{List: []ast.Stmt{&ast.BranchStmt{Tok: token.CONTINUE}}}})
	}
	if !isBlank(x.Key) {
		pre = append(pre, &ast.AssignStmt{Lhs: []ast.Expr{x.Key}, Tok: tok, Rhs: []ast.Expr{itSel("K")}})
	}
	mexpr := x.X
	if r.access {
		mexpr = &ast.CallExpr{Fun: r.vs("MR"), Args: []ast.Expr{mexpr, lit(r.mapSite[x])}}
	}
	x.X = &ast.CallExpr{Fun: r.vs("MapIter"), Args: []ast.Expr{mexpr}}
	x.Key = ast.NewIdent("_")
	x.Value = ast.NewIdent(it)
	x.Tok = token.DEFINE
	x.Body.List = append(pre, x.Body.List...)
}
