//go:build verif && go1.18

package grpcgcp

import (
	"context"
	"fmt"
	"reflect"
	"sort"
	"strings"
	"time"

	"google.golang.org/grpc/balancer"
	"google.golang.org/grpc/connectivity"
	"google.golang.org/grpc/resolver"

	"verif/engine/vctx"
	"verif/engine/vsched"
)

// ---- raw operations executed on the calling (controlled) thread ----

type rawCall struct {
	cmd, key string
	res      balancer.PickResult
	err      error
	sc       *fakeSC
	gctx     *gcpContext
	ctx      context.Context
	cancel   context.CancelFunc
	finished bool
	done     bool
	w        *poolWorld
}

func (w *poolWorld) rawPick(cmd, key string, pub *publication, withG bool, dl time.Duration, cancellable bool) *rawCall {
	rc := &rawCall{cmd: cmd, key: key}
	var ctx context.Context = context.Background()
	if dl > 0 {
		ctx, rc.cancel = vctx.WithDeadline(ctx, w.s.Clock().Add(dl))
	} else if cancellable {
		ctx, rc.cancel = vctx.WithCancel(ctx)
	}
	if withG {
		rc.gctx = &gcpContext{reqMsg: &reqMsg{Key: key}}
		ctx = context.WithValue(ctx, gcpKey, rc.gctx)
	}
	rc.ctx = ctx
	rc.res, rc.err = pub.picker.Pick(balancer.PickInfo{FullMethodName: methodOf(cmd), Ctx: ctx})
	rc.finished = true
	rc.w = w
	if rc.err == nil {
		rc.sc, _ = rc.res.SubConn.(*fakeSC)
		w.pairPlaced++
	}
	return rc
}

func (rc *rawCall) complete(outcome string) {
	if rc.err != nil || rc.res.Done == nil {
		return
	}
	var di balancer.DoneInfo
	switch {
	case strings.HasPrefix(outcome, "ok:"):
		if rc.gctx != nil {
			rc.gctx.replyMsg = &replyMsg{Key: strings.Split(outcome[3:], "+")}
		}
	case outcome == "err":
		di.Err = unavailErr
	case outcome == "cde":
		di.Err = cdeErr
	}
	rc.res.Done(di)
	rc.done = true
	if rc.w != nil {
		rc.w.pairCompleted++
	}
}

func callOf(c *call) *rawCall {
	return &rawCall{cmd: c.cmd, key: c.key, res: c.res, err: c.err, sc: c.sc, gctx: c.gctx, ctx: c.ctx, finished: true}
}

func (w *poolWorld) rawState(scID int, st connectivity.State) {
	sc := w.cc.scs[scID]
	w.b.UpdateSubConnState(sc, balancer.SubConnState{ConnectivityState: st})
	sc.state, sc.reported = st, true
}

// ---- drivers ----

type tprog struct {
	name string
	// mayPark: the thread may legitimately be blocked at the end (RR BIND whose channel never became READY)
	mayPark func() bool
	fn      func()
}

type poolDriver struct {
	Name    string
	Cfg     poolCfg
	Threads func(w *poolWorld, r *driverRun) []tprog
	// End runs on the main thread after quiescence.
	End func(w *poolWorld, r *driverRun)
}

type driverRun struct {
	calls map[string]*rawCall
	notes []string
	viol  []vsched.Violation
	drv   *poolDriver
}

func (r *driverRun) violate(prop, rule, cause, msg string) {
	r.viol = append(r.viol, vsched.Violation{Property: prop, Rule: rule, Sig: fmt.Sprintf("%s [driver %s] %s", rule, r.drv.Name, cause), Msg: msg})
}

func (w *poolWorld) counters() map[int]int {
	out := map[int]int{}
	refs := reflect.ValueOf(w.gb).Elem().FieldByName("scRefs")
	if !refs.IsValid() {
		return out
	}
	it := refs.MapRange()
	for it.Next() {
		sc := (*fakeSC)(it.Key().Elem().UnsafePointer())
		out[sc.id] = int(it.Value().Elem().FieldByName("streamsCnt").Int())
	}
	return out
}

func driverBody(d *poolDriver) func(s *vsched.Sched) *vsched.ExecOutcome {
	return func(s *vsched.Sched) *vsched.ExecOutcome {
		s.Frozen = true
		w := newPoolWorld(s, d.Cfg)
		s.Frozen = false
		r := &driverRun{calls: map[string]*rawCall{}, drv: d}
		if w.poisoned || len(w.viol) > 0 {
			for _, v := range w.viol {
				r.viol = append(r.viol, v)
			}
			return &vsched.ExecOutcome{Outcome: "setup-failed", Violations: r.viol}
		}
		progs := d.Threads(w, r)
		var ths []*vsched.Thread
		for _, p := range progs {
			ths = append(ths, s.Go(p.name, p.fn))
		}
		s.WaitQuiescent()
		var out []string
		for i, th := range ths {
			kind := progs[i].name
			switch {
			case th.PanicVal != nil:
				cls := fmt.Sprint(th.PanicVal)
				if len(cls) > 70 {
					cls = cls[:70]
				}
				r.violate("C05", "C05.PANIC", fmt.Sprintf("panic in %s (%s)", th.PanicSite, strings.SplitN(cls, "[", 2)[0]), fmt.Sprintf("thread %s: %v\n%s", kind, th.PanicVal, trimStack(th.PanicStack)))
				out = append(out, kind+":panic")
			case th.Livelock:
				r.violate("C06", "C06.SPIN", "thread "+kind+" does not terminate", "step budget exceeded in "+th.LiveSite)
				out = append(out, kind+":spin")
			case !th.Done():
				if progs[i].mayPark != nil && progs[i].mayPark() {
					if th.Held != 0 {
						r.violate("C06", "C06.HELD", "parked BIND holds a lock", kind)
					}
					out = append(out, kind+":parked")
				} else {
					r.violate("C06", "C06.DEADLOCK", fmt.Sprintf("thread %s blocked forever at %s", kind, th.Desc), fmt.Sprintf("thread %s never returns (blocked at %s)", kind, th.Desc))
					out = append(out, kind+":blocked")
				}
			default:
				if th.Held != 0 {
					r.violate("C06", "C06.HELD", "lock left held by "+kind, "")
				}
				out = append(out, kind+":ok")
			}
		}
		if d.End != nil {
			panicked := false
			for _, v := range r.viol {
				if v.Rule == "C05.PANIC" {
					panicked = true
				}
			}
			if !panicked {
				d.End(w, r)
			}
		}
		sort.Strings(r.notes)
		o := strings.Join(out, ",") + "|" + strings.Join(r.notes, ",")
		cnt := w.counters()
		var ks []string
		for id, n := range cnt {
			ks = append(ks, fmt.Sprintf("sc%d=%d", id, n))
		}
		sort.Strings(ks)
		key := o + "|" + strings.Join(ks, ",") + fmt.Sprintf("|scs=%d|pubs=%d", len(w.cc.scs), len(w.cc.pubs))
		return &vsched.ExecOutcome{Outcome: o, StateKey: key, Nontrivial: true, Violations: r.viol}
	}
}

func poolDrivers() []*poolDriver {
	var ds []*poolDriver
	note := func(r *driverRun, rc *rawCall, tag string) {
		if rc.err != nil {
			r.notes = append(r.notes, tag+"="+errClass(rc.err))
		} else {
			r.notes = append(r.notes, fmt.Sprintf("%s=%v", tag, rc.sc))
		}
	}
	// ---- grow-race: check-then-create on the pool size ----
	ds = append(ds, &poolDriver{Name: "grow-race",
		// two real pickers (the latest and a superseded one) both hold channel 0:
		// picks on different pickers are not serialised by the picker's own mutex
		Cfg: poolCfg{Name: "grow-race min=1 max=2 wm=1", Min: 1, Max: 2, WM: 1,
			Setup: append(readyPool(1), "state(0,IDLE)", "state(0,CONNECTING)", "state(0,READY)", "pick(plain,,L,g)")},
		Threads: func(w *poolWorld, r *driverRun) []tprog {
			latest := w.cc.latest()
			stale := w.pubFor("O")
			return []tprog{
				{name: "pickA", fn: func() { note(r, w.rawPick("plain", "", latest, true, 0, false), "A") }},
				{name: "pickB", fn: func() { note(r, w.rawPick("plain", "", stale, true, 0, false), "B") }},
				{name: "balancer", fn: func() {
					// the balancer thread reports each new connection CONNECTING then READY as soon as it exists
					for i := 1; i < 3; i++ {
						for len(w.cc.scs) <= i {
							if !vsched.WaitUntil(func() bool { return len(w.cc.scs) > i }, "await NewSubConn") {
								return
							}
						}
						w.rawState(i, connectivity.Connecting)
						w.rawState(i, connectivity.Ready)
					}
				}, mayPark: func() bool { return true }},
			}
		},
		End: func(w *poolWorld, r *driverRun) {
			n := reflect.ValueOf(w.gb).Elem().FieldByName("scRefs").Len()
			if n > 2 {
				r.violate("C03", "C03.R3", "pool larger than maxSize", fmt.Sprintf("%d channels with maxSize 2 (%d connections created)", n, len(w.cc.scs)))
			}
		}})
	// ---- pick-done: counter conservation ----
	ds = append(ds, &poolDriver{Name: "pick-done",
		Cfg: poolCfg{Name: "pick-done pool=2 refresh", Min: 2, Max: 2, WM: 100, RefCalls: 1, RefMs: 1, Setup: append(readyPool(2), "pick(plain,,L,g,d1)", "adv(2)")},
		Threads: func(w *poolWorld, r *driverRun) []tprog {
			latest := w.cc.latest()
			open := callOf(w.calls[0])
			return []tprog{
				{name: "callA", fn: func() { c := w.rawPick("plain", "", latest, true, 0, false); note(r, c, "A"); c.complete("ok") }},
				{name: "callB", fn: func() { c := w.rawPick("plain", "", latest, true, 0, false); note(r, c, "B"); c.complete("err") }},
				{name: "doneC", fn: func() { open.complete("cde") }},
				{name: "balancer", fn: func() { w.rawState(1, connectivity.Idle) }},
			}
		},
		End: func(w *poolWorld, r *driverRun) {
			for id, n := range w.counters() {
				if n != 0 {
					r.violate("C02", "C02.R2", "stream counter not back to zero after all calls completed", fmt.Sprintf("sc%d counter=%d", id, n))
				}
			}
		}})
	// ---- refresh-race: refresh exactly once ----
	ds = append(ds, &poolDriver{Name: "refresh-race",
		Cfg: poolCfg{Name: "refresh-race pool=1 calls=1 ms=1", Min: 1, Max: 1, WM: 100, RefCalls: 1, RefMs: 1,
			Setup: append(readyPool(1), "pick(plain,,L,g,d1)", "pick(plain,,L,g,d1)", "adv(2)")},
		Threads: func(w *poolWorld, r *driverRun) []tprog {
			latest := w.cc.latest()
			c0, c1 := callOf(w.calls[0]), callOf(w.calls[1])
			return []tprog{
				{name: "done0", fn: func() { c0.complete("cde") }},
				{name: "done1", fn: func() { c1.complete("cde") }},
				{name: "pick", fn: func() { c := w.rawPick("plain", "", latest, true, 0, false); note(r, c, "P"); c.complete("ok") }},
				{name: "balancer", fn: func() {
					if !vsched.WaitUntil(func() bool { return len(w.cc.scs) > 1 }, "await replacement") {
						return
					}
					w.rawState(1, connectivity.Connecting)
					w.rawState(1, connectivity.Ready)
				}, mayPark: func() bool { return true }},
			}
		},
		End: func(w *poolWorld, r *driverRun) {
			// two deadline completions: both satisfy the rule only while no refresh is in
			// progress; a completed swap in between legitimately re-arms the detector
			// (k=1 doubles the window, so a second refresh is not due in this scenario)
			if n := len(w.cc.scs); n > 2 {
				r.violate("C07", "C07.T2", "more than one replacement for one unresponsive episode", fmt.Sprintf("%d connections created for a pool of 1", n))
			}
			removed := 0
			for _, e := range w.cc.scs {
				if e.removed {
					removed++
				}
			}
			if removed > 1 {
				r.violate("C07", "C07.T4", "more than one connection removed", fmt.Sprint(removed))
			}
			for id, n := range w.counters() {
				if n != 0 {
					r.violate("C02", "C02.R2", "stream counter not back to zero after all calls completed", fmt.Sprintf("sc%d counter=%d", id, n))
				}
			}
		}})
	// ---- rr-bind: cursor fairness, wake-up, not blocking others ----
	ds = append(ds, &poolDriver{Name: "rr-bind",
		Cfg: poolCfg{Name: "rr-bind pool=2", Min: 2, Max: 2, WM: 100, RR: true, Setup: []string{"resolve(a1)", "state(0,CONNECTING)", "state(0,READY)", "state(1,CONNECTING)"}},
		Threads: func(w *poolWorld, r *driverRun) []tprog {
			latest := w.cc.latest()
			return []tprog{
				{name: "bindA", fn: func() { c := w.rawPick("bind", "", latest, true, 0, false); r.calls["A"] = c; note(r, c, "A") }},
				{name: "bindB", fn: func() { c := w.rawPick("bind", "", latest, true, 0, false); r.calls["B"] = c; note(r, c, "B") }},
				{name: "plain", fn: func() { c := w.rawPick("plain", "", latest, true, 0, false); note(r, c, "P"); c.complete("ok") }},
				{name: "balancer", fn: func() { w.rawState(1, connectivity.Ready) }},
			}
		},
		End: func(w *poolWorld, r *driverRun) {
			a, b := r.calls["A"], r.calls["B"]
			if a == nil || b == nil || a.sc == nil || b.sc == nil {
				r.violate("C09", "C09.Q3", "BIND did not return although every channel became READY", "")
				return
			}
			if a.sc == b.sc {
				r.violate("C09", "C09.Q1", "two consecutive BINDs on a 2-channel pool went to the same channel", fmt.Sprintf("both on %v", a.sc))
			}
		}})
	// ---- rr-bind with cancellation ----
	ds = append(ds, &poolDriver{Name: "rr-cancel",
		Cfg: poolCfg{Name: "rr-cancel pool=1", Min: 1, Max: 1, WM: 100, RR: true, Setup: []string{"resolve(a1)", "state(0,CONNECTING)", "state(0,READY)", "state(0,IDLE)"}},
		Threads: func(w *poolWorld, r *driverRun) []tprog {
			// the picker published while READY is still the one calls may hold
			var real *publication
			for _, p := range w.cc.pubs {
				if _, ok := p.picker.(*gcpPicker); ok && len(p.ready) > 0 {
					real = p
				}
			}
			ctx, cancel := vctx.WithCancel(context.Background())
			return []tprog{
				{name: "bind", fn: func() {
					c := &rawCall{cmd: "bind"}
					c.gctx = &gcpContext{reqMsg: &reqMsg{}}
					c.res, c.err = real.picker.Pick(balancer.PickInfo{FullMethodName: mBind, Ctx: context.WithValue(ctx, gcpKey, c.gctx)})
					r.calls["A"] = c
				}},
				{name: "cancel", fn: func() { cancel() }},
				{name: "plain", fn: func() { c := w.rawPick("plain", "", real, true, 0, false); c.complete("ok") }},
			}
		},
		End: func(w *poolWorld, r *driverRun) {
			if r.calls["A"] == nil {
				r.violate("C09", "C09.Q3", "BIND still waiting after its context was cancelled", "")
			}
		}})
	// ---- fallback-pick ----
	ds = append(ds, &poolDriver{Name: "fallback-pick",
		Cfg: poolCfg{Name: "fallback-pick pool=2 wm=1", Min: 2, Max: 2, WM: 1, Fallback: true,
			Setup: append(readyPool(2), "pick(bind,,L,g)", "done(0,ok:k1)", "state(0,IDLE)", "pick(plain,,L,g)")},
		Threads: func(w *poolWorld, r *driverRun) []tprog {
			latest := w.cc.latest()
			return []tprog{
				{name: "bound", fn: func() { c := w.rawPick("bound", "k1", latest, true, 0, false); note(r, c, "K"); c.complete("ok") }},
				{name: "plain", fn: func() { c := w.rawPick("plain", "", latest, true, 0, false); note(r, c, "P"); c.complete("ok") }},
				{name: "balancer", fn: func() { w.rawState(0, connectivity.Connecting); w.rawState(0, connectivity.Ready) }},
			}
		}})
	// ---- fallback on two pickers: keyed picks for two keys whose home is down, on the latest and on a superseded picker ----
	ds = append(ds, &poolDriver{Name: "fallback-two-pickers",
		Cfg: poolCfg{Name: "fallback-two-pickers pool=2", Min: 2, Max: 2, WM: 100, Fallback: true,
			Setup: append(readyPool(2), "pick(bind,,L,g)", "done(0,ok:k1+k2)", "state(1,IDLE)", "state(1,CONNECTING)", "state(1,READY)", "state(0,IDLE)")},
		Threads: func(w *poolWorld, r *driverRun) []tprog {
			latest := w.cc.latest()
			// a superseded picker that still holds a READY channel other than the home
			var stale *publication
			for _, p := range w.cc.pubs {
				if _, ok := p.picker.(*gcpPicker); ok && p != latest && len(p.ready) > 0 {
					stale = p
				}
			}
			return []tprog{
				{name: "boundK1", fn: func() { c := w.rawPick("bound", "k1", latest, true, 0, false); note(r, c, "K1"); c.complete("ok") }},
				{name: "boundK2", fn: func() { c := w.rawPick("bound", "k2", stale, true, 0, false); note(r, c, "K2"); c.complete("ok") }},
				{name: "balancer", fn: func() { w.rawState(0, connectivity.Connecting) }},
			}
		}})
	// ---- resolve-pick ----
	ds = append(ds, &poolDriver{Name: "resolve-pick",
		Cfg: poolCfg{Name: "resolve-pick min=1 max=2 wm=1", Min: 1, Max: 2, WM: 1, Setup: append(readyPool(1), "pick(plain,,L,g)")},
		Threads: func(w *poolWorld, r *driverRun) []tprog {
			latest := w.cc.latest()
			return []tprog{
				{name: "resolve", fn: func() {
					w.b.UpdateClientConnState(balancer.ClientConnState{ResolverState: resolver.State{Addresses: addrLists["a2"]}, BalancerConfig: &GCPBalancerConfig{ApiConfig: w.cfg.apiConfig()}})
				}},
				{name: "pick", fn: func() { c := w.rawPick("plain", "", latest, true, 0, false); note(r, c, "P") }},
				{name: "done", fn: func() { callOf(w.calls[0]).complete("ok") }},
			}
		},
		End: func(w *poolWorld, r *driverRun) {
			for _, sc := range w.cc.scs {
				if sc.addrs != "a2" {
					r.violate("C20", "C20.N1", "connection keeps old addresses after a concurrent resolver update", fmt.Sprintf("%v uses %s", sc, sc.addrs))
				}
			}
		}})
	// ---- refresh-resolve: a refresh starting while a resolver update arrives ----
	ds = append(ds, &poolDriver{Name: "refresh-resolve",
		Cfg: poolCfg{Name: "refresh-resolve pool=1 calls=1 ms=1", Min: 1, Max: 1, WM: 100, RefCalls: 1, RefMs: 1,
			Setup: append(readyPool(1), "pick(plain,,L,g,d1)", "adv(2)")},
		Threads: func(w *poolWorld, r *driverRun) []tprog {
			c0 := callOf(w.calls[0])
			return []tprog{
				{name: "done", fn: func() { c0.complete("cde") }},
				{name: "resolve", fn: func() {
					w.b.UpdateClientConnState(balancer.ClientConnState{ResolverState: resolver.State{Addresses: addrLists["a2"]}, BalancerConfig: &GCPBalancerConfig{ApiConfig: w.cfg.apiConfig()}})
				}},
				{name: "balancer", fn: func() {
					if !vsched.WaitUntil(func() bool { return len(w.cc.scs) > 1 }, "await replacement") {
						return
					}
					w.rawState(1, connectivity.Connecting)
					w.rawState(1, connectivity.Ready)
				}, mayPark: func() bool { return true }},
			}
		},
		End: func(w *poolWorld, r *driverRun) {
			// both the resolver update and the swap have completed: the channel's
			// connection must use the latest list
			refs := reflect.ValueOf(w.gb).Elem().FieldByName("scRefs")
			it := refs.MapRange()
			for it.Next() {
				sc := (*fakeSC)(it.Key().Elem().UnsafePointer())
				if sc.addrs != "a2" {
					r.violate("C20", "C20.N3", "pool connection uses an outdated address list after a resolver update concurrent with a refresh", fmt.Sprintf("%v uses %q, latest resolved list is a2", sc, sc.addrs))
				}
			}
		}})
	// ---- bind/unbind completions against keyed picks ----
	ds = append(ds, &poolDriver{Name: "bind-unbind",
		Cfg: poolCfg{Name: "bind-unbind pool=2", Min: 2, Max: 2, WM: 100, Fallback: true,
			Setup: append(readyPool(2), "pick(bind,,L,g)", "pick(bind,,L,g)", "done(1,ok:k2)", "pick(unbind,k2,L,g)")},
		Threads: func(w *poolWorld, r *driverRun) []tprog {
			latest := w.cc.latest()
			bindCall, unbindCall := callOf(w.calls[0]), callOf(w.calls[1])
			return []tprog{
				{name: "bindDone", fn: func() { bindCall.complete("ok:k1+k2") }},
				{name: "unbindDone", fn: func() { unbindCall.complete("ok") }},
				{name: "bound", fn: func() { c := w.rawPick("bound", "k1", latest, true, 0, false); note(r, c, "K"); c.complete("ok") }},
				{name: "balancer", fn: func() { w.rawState(1, connectivity.Idle) }},
			}
		}})
	return ds
}

func init() {
	extraChecks["SCHED"] = func(c *vsched.RunCtx) { runPoolDrivers(c, "", false) }
	extraChecks["C10"] = checkC10
}

// C10: every driver, every schedule within the bound, with the vector-clock
// race detector on (the build instruments every field/map access).
func checkC10(c *vsched.RunCtx) {
	runPoolDrivers(c, "", true)
	if c.Replay == nil || strings.HasPrefix(c.Replay.Harness, "pairs") {
		runPairs(c, true)
	}
	runStreamRaces(c)
	runGMEDrivers(c, true)
	c.Assume("happens-before race detection over instrumented accesses to fields of structs declared in grpcgcp to maps and to slice elements (index, append within capacity, range); accesses inside gRPC/protobuf are out of scope",
		"drivers: grow-race, pick-done, refresh-race, rr-bind, rr-cancel, fallback-pick, resolve-pick, bind-unbind, stream scenarios, gme-update; multiendpoint drivers in the multiendpoint package")
}

func runStreamRaces(c *vsched.RunCtx) {
	if c.Replay != nil && !strings.HasPrefix(c.Replay.Harness, "stream") {
		return
	}
	pre, dev := 2, 1
	for _, sc := range streamScenarios() {
		if c.Replay != nil {
			if sc.Name == c.Replay.Config {
				_, s := vsched.RunOnce(vsched.ExploreOpts{Race: true}, c.Replay.Choices, true, streamBody(sc))
				rr := &vsched.ReplayResult{Trace: s.Events}
				for sig := range s.Races {
					if "race: "+sig == c.Replay.Sig {
						rr.Reproduced, rr.Msg = true, sig
					}
				}
				c.SetReplay(rr)
			}
			continue
		}
		res := vsched.Explore(vsched.ExploreOpts{Name: "stream", Config: sc.Name, PreemptBound: pre, DevBound: dev, Race: true, Deadline: c.Deadline, Shard: c.Shard, NShards: c.NShards}, streamBody(sc))
		c.Add(res)
	}
}

// runPoolDrivers explores the pool drivers; only is a comma-separated list of
// driver names ("" = all).
func runPoolDrivers(c *vsched.RunCtx, only string, race bool) {
	pre, dev := 2, 1
	if c.Thorough() {
		pre, dev = 3, 1
	}
	for _, d := range poolDrivers() {
		if only != "" && !strings.Contains(","+only+",", ","+d.Name+",") {
			continue
		}
		d := d
		d.Cfg.Prop = c.Check
		if c.Replay != nil {
			if c.Replay.Harness == "sched:"+d.Name {
				out, s := vsched.RunOnce(vsched.ExploreOpts{Race: race}, c.Replay.Choices, true, driverBody(d))
				rr := &vsched.ReplayResult{Trace: s.Events}
				for _, v := range out.Violations {
					if v.Sig == c.Replay.Sig {
						rr.Reproduced, rr.Msg = true, v.Msg
					}
				}
				for sig := range s.Races {
					if "race: "+sig == c.Replay.Sig {
						rr.Reproduced, rr.Msg = true, sig
					}
				}
				c.SetReplay(rr)
			}
			continue
		}
		res := vsched.Explore(vsched.ExploreOpts{Name: "sched:" + d.Name, Config: d.Cfg.Name, PreemptBound: pre, DevBound: dev, Race: race,
			Deadline: c.Deadline, Shard: c.Shard, NShards: c.NShards}, driverBody(d))
		c.Add(res)
	}
}

var _ = time.Second
