//go:build verif && go1.18

package grpcgcp

import (
	"context"
	"fmt"
	"math/big"
	"reflect"
	"sort"
	"strings"
	"sync/atomic"
	"time"

	"google.golang.org/grpc/balancer"
	"google.golang.org/grpc/codes"
	"google.golang.org/grpc/connectivity"
	"google.golang.org/grpc/resolver"
	"google.golang.org/grpc/status"

	pb "github.com/GoogleCloudPlatform/grpc-gcp-go/grpcgcp/grpc_gcp"

	"verif/engine/vctx"
	"verif/engine/vsched"
	"verif/engine/vsync"
)

const (
	ms    = time.Millisecond
	slack = 10 * time.Microsecond
)

type alphabet struct {
	Resolve  []string // address lists offered to resolve() after the setup
	ResErr   bool
	States   string // "" none, "basic", "full" (repeats, TF->CONNECTING)
	Shutdown bool   // SHUTDOWN reports for pool connections
	Unknown  bool   // reports for a connection the balancer never created
	Cmds     []string
	Keys     []string
	Gens     []string // L latest, P previous, O oldest real picker
	Ctx      []string // "g" interceptor ctx, "n" none, "g,d2" with deadline now+2ms
	Done     []string // ok ok:k1 ok:k1+k2 ok:k2 err cde sde nr
	Adv      []int    // ms
	Fail     bool
	// Close: gRPC closes the balancer at some point of the history. Afterwards it delivers no more
	// balancer callbacks and refuses to create connections, but picks on the pickers already
	// published and completion callbacks of open calls still arrive.
	Close bool
	// R2C: READY connections may report CONNECTING directly
	R2C     bool
	MaxOpen int
	MaxSC   int
}

type poolCfg struct {
	Name     string
	Prop     string
	Depth    int // 0: the property's default depth
	Min, Max uint32
	WM       uint32
	Fallback bool
	RefCalls uint32
	RefMs    uint32
	RR       bool
	NilCfg   bool
	BadCfg   bool
	Setup    []string
	A        alphabet
}

func (c poolCfg) String() string { return c.Name }

func (c poolCfg) class() string {
	var f []string
	if c.Fallback {
		f = append(f, "fallback")
	}
	if c.RefCalls > 0 && c.RefMs > 0 {
		f = append(f, "refresh")
	}
	if c.RR {
		f = append(f, "rr")
	}
	if len(f) == 0 {
		return "plain"
	}
	return strings.Join(f, "+")
}

func (c poolCfg) effMin() int {
	if c.NilCfg || c.Min == 0 {
		return 1
	}
	return int(c.Min)
}
func (c poolCfg) effMax() int {
	if c.NilCfg || c.Max == 0 {
		return 4
	}
	return int(c.Max)
}
func (c poolCfg) effWM() int {
	if c.NilCfg || c.WM == 0 {
		return 100
	}
	return int(c.WM)
}
func (c poolCfg) detection() bool { return !c.NilCfg && c.RefCalls > 0 && c.RefMs > 0 }

func (c poolCfg) apiConfig() *pb.ApiConfig {
	cfg := &pb.ApiConfig{
		ChannelPool: &pb.ChannelPoolConfig{
			MinSize: c.Min, MaxSize: c.Max, MaxConcurrentStreamsLowWatermark: c.WM,
			FallbackToReady: c.Fallback, UnresponsiveCalls: c.RefCalls, UnresponsiveDetectionMs: c.RefMs,
		},
		Method: []*pb.MethodConfig{
			{Name: []string{mBind}, Affinity: &pb.AffinityConfig{Command: pb.AffinityConfig_BIND, AffinityKey: "key"}},
			{Name: []string{mBound}, Affinity: &pb.AffinityConfig{Command: pb.AffinityConfig_BOUND, AffinityKey: "key"}},
			{Name: []string{mUnbind}, Affinity: &pb.AffinityConfig{Command: pb.AffinityConfig_UNBIND, AffinityKey: "key"}},
			{Name: []string{mBadLoc}, Affinity: &pb.AffinityConfig{Command: pb.AffinityConfig_BOUND, AffinityKey: "nosuch.field"}},
		},
	}
	if c.RR {
		cfg.ChannelPool.BindPickStrategy = pb.ChannelPoolConfig_ROUND_ROBIN
	}
	return cfg
}

// ---- reference model ----

type refSlot struct {
	idx        int
	cur        *fakeSC
	pending    *fakeSC
	inflight   int
	state      connectivity.State
	base       time.Time
	deCnt      int
	k          int
	refreshing bool
	gone       bool
	swaps      int
}

// liveConns: connections the balancer created and has neither removed nor seen shut down.
func (w *poolWorld) liveConns() int {
	n := 0
	for _, sc := range w.cc.scs {
		if !sc.removed && !sc.shutdown {
			n++
		}
	}
	return n
}

func (s *refSlot) String() string { return fmt.Sprintf("slot%d(%v)", s.idx, s.cur) }

type call struct {
	id       int
	cmd, key string
	gen      string
	ctxs     string
	method   string
	ctx      context.Context
	cancel   context.CancelFunc
	gctx     *gcpContext
	hasG     bool
	deadline time.Time
	hasDL    bool
	pub      *publication
	th       *vsched.Thread
	returned bool
	judged   bool
	res      balancer.PickResult
	err      error
	sc       *fakeSC
	slot     *refSlot
	start    time.Time
	rrEpoch  int
	rrSeq    int
	rrTurn   bool
	keyBound *refSlot // binding of the key when the pick started (nil: unknown key)
	reqList  bool
	reqNil   bool
}

type poolWorld struct {
	s   *vsched.Sched
	cfg poolCfg
	cc  *fakeCC
	b   balancer.Balancer
	gb  *gcpBalancer

	slots                     []*refSlot
	bind                      map[string]*refSlot
	standin                   map[string]*refSlot
	addrs                     string
	resolved                  bool
	calls                     []*call // open (returned, not completed) and parked calls
	pairRefs                  []*subConnRef
	closed                    bool        // the balancer was closed by gRPC
	serializer                vsync.Mutex // pair harness: balancer callbacks are delivered one at a time
	pairCalls                 []*call     // snapshot of the open calls after the setup (pairs harness)
	pairPlaced, pairCompleted int
	ncalls                    int
	rrEpoch                   int
	rrSeq                     int
	rrBase                    int
	rrBaseOK                  bool
	unknown                   *fakeSC

	opIndex  int
	lastOp   string
	viol     []vsched.Violation
	poisoned bool
	nontriv  map[string]bool
	inSetup  bool
}

func newPoolWorld(s *vsched.Sched, cfg poolCfg) *poolWorld {
	w := &poolWorld{s: s, cfg: cfg, bind: map[string]*refSlot{}, standin: map[string]*refSlot{}, nontriv: map[string]bool{}}
	w.cc = &fakeCC{w: w}
	w.b = newBuilder().Build(w.cc, balancer.BuildOptions{})
	w.gb = w.b.(*gcpBalancer)
	w.unknown = &fakeSC{id: 1000, unknown: true, state: connectivity.Idle}
	w.inSetup = true
	for _, op := range cfg.Setup {
		w.Do(op)
		if w.poisoned {
			break
		}
	}
	w.inSetup = false
	return w
}

func (w *poolWorld) violate(prop, rule, cause, msg string) {
	if w.inSetup && prop != "C05" && prop != "C06" {
		// the setup prefix is part of the scenario: judged as well
	}
	w.viol = append(w.viol, vsched.Violation{Property: prop, Rule: rule,
		Sig: fmt.Sprintf("%s [%s] %s", rule, w.cfg.class(), cause), Msg: w.lastOp + ": " + msg})
}

func (w *poolWorld) liveSlots() []*refSlot {
	var r []*refSlot
	for _, s := range w.slots {
		if !s.gone {
			r = append(r, s)
		}
	}
	return r
}

func (w *poolWorld) refReadySlots() []*refSlot {
	var r []*refSlot
	for _, s := range w.liveSlots() {
		if s.state == connectivity.Ready {
			r = append(r, s)
		}
	}
	return r
}

func (w *poolWorld) slotOf(sc *fakeSC) *refSlot {
	for _, s := range w.slots {
		if s.cur == sc && !s.gone {
			return s
		}
	}
	for _, s := range w.slots {
		if s.cur == sc {
			return s
		}
	}
	return nil
}

func (w *poolWorld) pendingOf(sc *fakeSC) *refSlot {
	for _, s := range w.slots {
		if s.pending == sc {
			return s
		}
	}
	return nil
}

func (w *poolWorld) aggregate() connectivity.State {
	ready, conn := false, false
	for _, s := range w.liveSlots() {
		switch s.state {
		case connectivity.Ready:
			ready = true
		case connectivity.Connecting:
			conn = true
		}
	}
	if ready {
		return connectivity.Ready
	}
	if conn {
		return connectivity.Connecting
	}
	return connectivity.TransientFailure
}

// ---- operations ----

func (w *poolWorld) pubFor(gen string) *publication {
	n := len(w.cc.pubs)
	if n == 0 {
		return nil
	}
	switch gen {
	case "L":
		return w.cc.pubs[n-1]
	case "P":
		if n >= 2 {
			return w.cc.pubs[n-2]
		}
	case "O":
		for _, p := range w.cc.pubs {
			if _, ok := p.picker.(*gcpPicker); ok {
				return p
			}
		}
	}
	return nil
}

// r2c: also offer READY -> CONNECTING (see below)
var r2c bool

func nextStates(sc *fakeSC, full bool) []connectivity.State {
	var r []connectivity.State
	switch sc.state {
	case connectivity.Idle:
		r = []connectivity.State{connectivity.Connecting}
	case connectivity.Connecting:
		r = []connectivity.State{connectivity.Ready, connectivity.TransientFailure}
	case connectivity.Ready:
		r = []connectivity.State{connectivity.Idle}
		if r2c {
			// READY -> CONNECTING without IDLE in between: gRPC resets the transport at once when
			// UpdateAddresses drops the address the connection is using (addrConn.updateAddrs)
			r = append(r, connectivity.Connecting)
		}
	case connectivity.TransientFailure:
		r = []connectivity.State{connectivity.Idle}
		if full {
			r = append(r, connectivity.Connecting)
		}
	}
	if full && sc.reported {
		r = append(r, sc.state)
	}
	return r
}

var stateNames = map[string]connectivity.State{"IDLE": connectivity.Idle, "CONNECTING": connectivity.Connecting, "READY": connectivity.Ready,
	"TRANSIENT_FAILURE": connectivity.TransientFailure, "SHUTDOWN": connectivity.Shutdown}

func (w *poolWorld) Ops() []string {
	a := w.cfg.A
	r2c = a.R2C
	var ops []string
	now := w.s.Clock()
	// completions first (simplest), then picks, state reports, clock, resolver
	open := 0
	for i, c := range w.calls {
		if !c.returned || c.sc == nil {
			open++
			continue
		}
		open++
		for _, o := range a.Done {
			if (o == "cde" || o == "cdeb") && !(c.hasDL && !now.Before(c.deadline)) {
				continue
			}
			if strings.HasPrefix(o, "ok:") && c.cmd != "bind" {
				continue
			}
			if o == "nr" && c.cmd == "unbind" {
				continue
			}
			ops = append(ops, fmt.Sprintf("done(%d,%s)", i, o))
		}
	}
	if w.resolved && (a.MaxOpen == 0 || open < a.MaxOpen) {
		seenPub := map[*publication]bool{}
		for _, g := range a.Gens {
			p := w.pubFor(g)
			if p == nil || seenPub[p] {
				continue
			}
			seenPub[p] = true
			for _, cmd := range a.Cmds {
				keys := []string{""}
				if cmd == "bound" || cmd == "unbind" {
					keys = a.Keys
				}
				for _, k := range keys {
					for _, cx := range a.Ctx {
						ops = append(ops, fmt.Sprintf("pick(%s,%s,%s,%s)", cmd, k, g, cx))
					}
				}
			}
		}
	}
	if a.Close && !w.closed {
		ops = append(ops, "close()")
	}
	if w.closed {
		for _, d := range a.Adv {
			ops = append(ops, fmt.Sprintf("adv(%d)", d))
		}
		return ops
	}
	if a.States != "" {
		for _, sc := range w.cc.scs {
			if sc.shutdown {
				continue
			}
			for _, st := range nextStates(sc, a.States == "full") {
				ops = append(ops, fmt.Sprintf("state(%d,%s)", sc.id, st))
			}
			if sc.removed || a.Shutdown {
				ops = append(ops, fmt.Sprintf("state(%d,SHUTDOWN)", sc.id))
			}
		}
		if a.Unknown && !w.unknown.shutdown {
			for _, st := range nextStates(w.unknown, false) {
				ops = append(ops, fmt.Sprintf("state(%d,%s)", w.unknown.id, st))
			}
		}
	}
	for _, d := range a.Adv {
		ops = append(ops, fmt.Sprintf("adv(%d)", d))
	}
	for _, r := range a.Resolve {
		ops = append(ops, "resolve("+r+")")
	}
	if a.ResErr {
		ops = append(ops, "resolverError()")
	}
	if a.Fail {
		if w.cc.failFactory {
			ops = append(ops, "fail(off)")
		} else {
			ops = append(ops, "fail(on)")
		}
	}
	if a.MaxSC > 0 && len(w.cc.scs) >= a.MaxSC {
		// bound the space: no operation is removed (creation may still happen),
		// but histories are not extended once the cap is reached
		return nil
	}
	return ops
}

func (w *poolWorld) runThread(name string, fn func()) *vsched.Thread {
	th := w.s.Go(name, fn)
	w.s.WaitQuiescent()
	return th
}

// classify reports crashes and hangs of a finished-or-not operation thread.
// parkOK: the thread may legitimately stay parked.
func (w *poolWorld) classify(th *vsched.Thread, opKind string, parkOK bool) bool {
	switch {
	case th.PanicVal != nil:
		cls := fmt.Sprint(th.PanicVal)
		if i := strings.Index(cls, ":"); i > 0 && strings.HasPrefix(cls, "runtime error") {
			// keep the class of the runtime error, drop indices/addresses
			cls = "runtime error:" + strings.SplitN(cls[i+1:], "[", 2)[0]
		}
		cls = strings.TrimSpace(cls)
		if len(cls) > 80 {
			cls = cls[:80]
		}
		w.violate("C05", "C05.PANIC", fmt.Sprintf("panic in %s (%s) during %s", th.PanicSite, cls, opKind),
			fmt.Sprintf("panic: %v\n%s", th.PanicVal, trimStack(th.PanicStack)))
		w.poisoned = true
	case th.Livelock:
		w.violate("C06", "C06.SPIN", fmt.Sprintf("no termination in %s during %s", th.LiveSite, opKind),
			fmt.Sprintf("operation executed more than the step budget of instrumented steps without returning (last site %s)", th.LiveSite))
		w.poisoned = true
	case !th.Done():
		if parkOK {
			if th.Held != 0 {
				w.violate("C06", "C06.HELD", "parked round-robin BIND holds a lock", "a waiting BIND pick holds a lock while parked")
			}
			return true
		}
		w.violate("C06", "C06.DEADLOCK", fmt.Sprintf("%s blocks forever at %s in %s", opKind, th.Desc, blockSite(w.s, th)),
			fmt.Sprintf("operation never returns: blocked at %s with no other thread able to release it", th.Desc))
		w.poisoned = true
	case th.Held != 0:
		w.violate("C06", "C06.HELD", "lock left held after "+opKind, "operation returned while holding a lock")
		w.poisoned = true
	}
	return !w.poisoned
}

func blockSite(s *vsched.Sched, th *vsched.Thread) string {
	if th.BlockSite != "" {
		return th.BlockSite
	}
	return "?"
}

func trimStack(st string) string {
	lines := strings.Split(st, "\n")
	var out []string
	for _, l := range lines {
		if strings.Contains(l, "grpcgcp.") && !strings.Contains(l, "zzverif") {
			out = append(out, strings.TrimSpace(l))
		}
		if len(out) >= 6 {
			break
		}
	}
	return strings.Join(out, " <- ")
}

func opParts(op string) (string, []string) {
	i := strings.Index(op, "(")
	name := op[:i]
	arg := op[i+1 : len(op)-1]
	if arg == "" {
		return name, nil
	}
	return name, strings.Split(arg, ",")
}

func (w *poolWorld) Do(op string) {
	w.lastOp = op
	w.opIndex++
	w.cc.events = nil
	for _, sc := range w.cc.scs {
		sc.opConnect, sc.opAddrUpd = 0, 0
	}
	name, args := opParts(op)
	pubsBefore := len(w.cc.pubs)
	switch name {
	case "resolve":
		w.doResolve(args[0])
	case "resolverError":
		w.doResolverError()
	case "close":
		th := w.runThread("close", func() { w.b.Close() })
		if !w.classify(th, "close", false) {
			return
		}
		w.closed = true
		w.cc.failFactory = true
	case "state":
		var id int
		fmt.Sscanf(args[0], "%d", &id)
		if id != w.unknown.id && id >= len(w.cc.scs) {
			w.setupImpossible(op, "the connection it refers to was never created")
			return
		}
		w.doState(id, stateNames[args[1]], pubsBefore)
	case "pick":
		w.doPick(args)
	case "done":
		var i int
		fmt.Sscanf(args[0], "%d", &i)
		if i >= len(w.calls) || !w.calls[i].returned || w.calls[i].sc == nil {
			w.setupImpossible(op, "the call it completes was not placed")
			return
		}
		w.doDone(i, args[1])
	case "adv":
		var n int
		fmt.Sscanf(args[0], "%d", &n)
		w.s.AdvanceBy(time.Duration(n)*ms + slack)
		w.s.WaitQuiescent()
	case "keys":
		// setup only: channel args[0] has had args[1] keys bound to it. Stands for that many BIND
		// replies (a history no bounded search can afford); the per-channel key counter is the only
		// trace of them that a later placement decision could read.
		var i, n int
		fmt.Sscanf(args[0], "%d", &i)
		fmt.Sscanf(args[1], "%d", &n)
		if ref := w.gb.scRefs[w.cc.scs[i]]; ref != nil {
			atomic.StoreInt32(&ref.affinityCnt, int32(n))
		}
	case "streams":
		// setup only: channel args[0] already carries args[1] open streams (long-lived calls placed
		// earlier, never completed within the explored history)
		var i, n int
		fmt.Sscanf(args[0], "%d", &i)
		fmt.Sscanf(args[1], "%d", &n)
		if ref := w.gb.scRefs[w.cc.scs[i]]; ref != nil {
			atomic.StoreInt32(&ref.streamsCnt, int32(n))
		}
	case "fail":
		w.cc.failFactory = args[0] == "on"
	case "cancel":
		var i int
		fmt.Sscanf(args[0], "%d", &i)
		if i < len(w.calls) && w.calls[i].cancel != nil {
			w.calls[i].cancel()
			w.s.WaitQuiescent()
		}
	default:
		panic(vsched.CheckError{Msg: "unknown op " + op})
	}
	if w.poisoned {
		return
	}
	// Publications made during this operation: their reference READY snapshot is
	// the reference pool after the operation's own effect (the balancer
	// publishes after recording the reported state).
	for _, p := range w.cc.pubs[pubsBefore:] {
		p.ready = w.refReadySlots()
	}
	w.afterOp(name, pubsBefore)
}

// setupImpossible: an operation of the scenario's setup prefix (or of a
// replayed history) cannot be executed because an earlier operation did not
// have the effect every property-conforming implementation has (e.g. the first
// resolver update created no connection). Reported against the property under
// check; the state is not expanded.
func (w *poolWorld) setupImpossible(op, why string) {
	if !w.inSetup {
		panic(vsched.CheckError{Msg: "operation " + op + " is not executable: " + why})
	}
	name, _ := opParts(op)
	w.violate(w.cfg.Prop, w.cfg.Prop+".SETUP", "scenario setup not executable at "+name, fmt.Sprintf("setup %v stops at %s: %s; pool: %s; channel calls: %v", w.cfg.Setup, op, why, w.refString(), w.cc.events))
	w.poisoned = true
}

// ---- resolver ----

func (w *poolWorld) doResolve(list string) {
	var cfgv *GCPBalancerConfig
	st := balancer.ClientConnState{ResolverState: resolver.State{Addresses: addrLists[list]}}
	if !w.cfg.NilCfg {
		cfgv = &GCPBalancerConfig{ApiConfig: w.cfg.apiConfig()}
		st.BalancerConfig = cfgv
	}
	first := !w.resolved
	poolBefore := len(w.liveSlots())
	th := w.runThread("resolve", func() { w.b.UpdateClientConnState(st) })
	if !w.classify(th, "resolve("+list+")", false) {
		return
	}
	created := w.absorbCreations("resolve")
	if list == "empty" {
		// gRPC hands an empty list through; the statement only requires the call
		// to return (C05/C06). The reference pool is whatever was created.
		w.addrs = list
		w.resolved = w.resolved || len(w.slots) > 0
		return
	}
	w.addrs = list
	w.checkCreationAddrs()
	if first || !w.resolved {
		w.resolved = true
		if !w.cc.failFactory {
			want := w.cfg.effMin()
			if created != want {
				w.violate("C03", "C03.R1", "initial pool size", fmt.Sprintf("first resolver update created %d connections, want max(1,minSize)=%d", created, want))
			}
			w.nontriv["C03"] = true
		}
		return
	}
	if poolBefore == 0 {
		// re-creation of an emptied pool (C03.R2a): at least one connection
		if created == 0 && !w.cc.failFactory {
			w.violate("C03", "C03.R2", "emptied pool not re-created", "resolver update on an emptied pool created no connection")
		}
		w.nontriv["C03"] = true
		return
	}
	if created != 0 {
		w.violate("C03", "C03.R2", "resolve added a connection to a non-empty pool", fmt.Sprintf("resolver update created %d connections although the pool was not empty", created))
	}
	// C20.N1
	for _, s := range w.liveSlots() {
		if s.cur.addrs != list {
			w.violate("C20", "C20.N1", "pool connection keeps old addresses after resolve", fmt.Sprintf("%v uses %q after resolve(%s)", s, s.cur.addrs, list))
		}
		if s.cur.opConnect == 0 {
			w.violate("C20", "C20.N1", "pool connection not asked to connect after resolve", fmt.Sprintf("%v got no Connect() during resolve(%s)", s, list))
		}
	}
	w.nontriv["C20"] = true
}

func (w *poolWorld) doResolverError() {
	before := w.Key()
	th := w.runThread("resolverError", func() { w.b.ResolverError(fmt.Errorf("resolver failed")) })
	if !w.classify(th, "resolverError", false) {
		return
	}
	if len(w.cc.events) != 0 {
		w.violate("C20", "C20.N4", "resolver error touched the channel", fmt.Sprintf("ResolverError caused %v", w.cc.events))
	}
	if after := w.Key(); after != before {
		w.violate("C20", "C20.N4", "resolver error changed balancer state", "state before/after differ:\n"+before+"\n"+after)
	}
	w.nontriv["C20"] = true
}

// absorbCreations turns NewSubConn events of the current operation into new
// reference slots (kind: which operation created them) and checks the
// address list they were created with (C20.N2).
func (w *poolWorld) absorbCreations(kind string) int {
	n := 0
	for _, e := range w.cc.events {
		if e.Kind != "NewSubConn" {
			continue
		}
		n++
		if w.slotOf(e.SC) != nil || w.pendingOf(e.SC) != nil {
			continue
		}
		s := &refSlot{idx: len(w.slots), cur: e.SC, state: connectivity.Idle, base: w.s.Clock()}
		w.slots = append(w.slots, s)
		w.rrEpoch++
		w.rrSeq, w.rrBaseOK = 0, false
	}
	return n
}

func (w *poolWorld) checkCreationAddrs() {
	for _, e := range w.cc.events {
		if (e.Kind == "NewSubConn" || e.Kind == "NewSubConn-failed") && w.addrs != "" && e.Arg != w.addrs {
			w.violate("C20", "C20.N2", "connection created with stale addresses", fmt.Sprintf("%v created with %q, latest resolved list is %q", e.SC, e.Arg, w.addrs))
		}
	}
}

// ---- state reports ----

func (w *poolWorld) findSC(id int) *fakeSC {
	if id == w.unknown.id {
		return w.unknown
	}
	return w.cc.scs[id]
}

func (w *poolWorld) doState(id int, st connectivity.State, pubsBefore int) {
	sc := w.findSC(id)
	slot := w.slotOf(sc)
	if slot != nil && slot.gone {
		slot = nil
	}
	pend := w.pendingOf(sc)
	aggBefore := w.aggregate()
	anyReported := false
	for _, x := range w.liveSlots() {
		if x.cur.reported {
			anyReported = true
		}
	}
	readyBefore := slot != nil && slot.state == connectivity.Ready
	th := w.runThread("state", func() {
		w.b.UpdateSubConnState(sc, balancer.SubConnState{ConnectivityState: st})
	})
	sc.state, sc.reported = st, true
	if st == connectivity.Shutdown {
		sc.shutdown = true
	}
	if !w.classify(th, "state report", false) {
		return
	}
	if slot != nil && pend == nil && slot.refreshing && st == connectivity.Idle && sc.opConnect == 0 {
		// C07: "the old connection keeps serving until the replacement is READY" - an IDLE connection
		// serves again only if the balancer asks it to connect
		w.violate("C07", "C07.T5", "old connection of a refresh in progress went IDLE and was not asked to reconnect",
			fmt.Sprintf("%v reported IDLE while its replacement %v is not READY yet: no Connect()", slot, slot.pending))
	}
	removes := 0
	var removed *fakeSC
	for _, e := range w.cc.events {
		if e.Kind == "RemoveSubConn" {
			removes++
			removed = e.SC
		}
	}
	switch {
	case pend != nil:
		if st != connectivity.Ready {
			// C07.T5: no observable effect
			if len(w.cc.events) != 0 {
				w.violate("C07", "C07.T5", "non-READY report of a replacement had an effect", fmt.Sprintf("events %v", w.cc.events))
			}
			return
		}
		old := pend.cur
		wasReady := pend.state == connectivity.Ready && !pend.gone
		// C07.T4
		if removes != 1 || removed != old {
			w.violate("C07", "C07.T4", "old connection not removed exactly once at the swap", fmt.Sprintf("RemoveSubConn calls=%d (%v), want exactly one for %v", removes, removed, old))
		}
		if w.addrs != "" && sc.addrs != w.addrs {
			w.violate("C20", "C20.N3", "replacement takes over with stale addresses", fmt.Sprintf("%v takes over %v with %q, latest resolved list is %q", sc, pend, sc.addrs, w.addrs))
		}
		pend.cur, pend.pending = sc, nil
		pend.refreshing = false
		pend.k++
		pend.swaps++
		pend.base = w.s.Clock()
		pend.deCnt = 0
		pend.state = connectivity.Ready
		pend.gone = false
		if !wasReady {
			// the home of every key bound to this channel is READY again: their fallback episodes end
			// here (a later episode may choose another stand-in)
			for k, s := range w.bind {
				if s == pend {
					delete(w.standin, k)
				}
			}
		}
		w.nontriv["C07"] = true
		w.nontriv["C20swap"] = true
		if wasReady && len(w.cc.pubs) != pubsBefore {
			w.violate("C04", "C04.R4", "swap of a READY connection published a new state", "completing a refresh of a READY connection published a state/picker")
		}
		if !wasReady && len(w.cc.pubs) == pubsBefore {
			// the channel became READY through the take-over: without a new picker no call can reach the replacement
			w.violate("C07", "C07.T4", "replacement took over a channel that was not READY but no new picker was published", fmt.Sprintf("%v took over %v; calls on the latest picker cannot reach it", sc, pend))
			w.violate("C04", "C04.R3", "no publication on a READY-ness / TRANSIENT_FAILURE change", fmt.Sprintf("%v became READY by a refresh take-over, nothing published", pend))
		}
		removes = 0
	case slot != nil:
		slot.state = st
		if st == connectivity.Shutdown {
			slot.gone = true
			w.rrEpoch++
			w.rrSeq, w.rrBaseOK = 0, false
			for k, s := range w.standin {
				if s == slot {
					delete(w.standin, k)
				}
			}
		}
		readyAfter := st == connectivity.Ready
		if readyBefore && !readyAfter {
			for k, s := range w.standin {
				if s == slot {
					delete(w.standin, k)
				}
			}
		}
		if readyAfter && !readyBefore {
			for k, s := range w.bind {
				if s == slot {
					delete(w.standin, k)
				}
			}
		}
		// C04.R3
		aggAfter := w.aggregate()
		// (before any connection has reported anything the aggregate is not defined)
		if readyBefore != readyAfter || (anyReported && (aggBefore == connectivity.TransientFailure) != (aggAfter == connectivity.TransientFailure)) {
			w.nontriv["C04"] = true
			if len(w.cc.pubs) == pubsBefore {
				w.violate("C04", "C04.R3", "no publication on a READY-ness / TRANSIENT_FAILURE change", fmt.Sprintf("%v: %v->%v, aggregate %v->%v, nothing published", slot, readyBefore, readyAfter, aggBefore, aggAfter))
			}
		}
	default:
		// removed / unknown connection: no effect on the channel
		if len(w.cc.pubs) != pubsBefore {
			w.violate("C04", "C04.R1", "report for a non-pool connection published a state", fmt.Sprintf("report %v for %v (not in the pool) published", st, sc))
		}
	}
	if removes != 0 {
		w.violate("C03", "C03.R5", "connection removed outside a completed refresh", fmt.Sprintf("RemoveSubConn(%v) during a state report that completes no refresh", removed))
	}
}

// ---- picks ----

func (w *poolWorld) doPick(args []string) {
	cmd, key, gen := args[0], args[1], args[2]
	c := &call{id: w.ncalls, cmd: cmd, key: key, gen: gen, ctxs: strings.Join(args[3:], ","), method: methodOf(cmd)}
	w.ncalls++
	c.pub = w.pubFor(gen)
	if c.pub == nil {
		panic(vsched.CheckError{Msg: "pick on a picker generation that does not exist: " + gen})
	}
	var ctx context.Context = context.Background()
	cancellable := false
	for _, f := range args[3:] {
		switch {
		case f == "g":
			c.hasG = true
		case f == "n":
		case f == "c":
			cancellable = true
		case f == "el":
			c.hasG, c.reqList = true, true
		case f == "gn":
			c.hasG, c.reqNil = true, true
		case strings.HasPrefix(f, "d"):
			var n int
			fmt.Sscanf(f[1:], "%d", &n)
			c.hasDL = true
			c.deadline = w.s.Clock().Add(time.Duration(n) * ms)
		}
	}
	if c.hasDL {
		ctx, c.cancel = vctx.WithDeadline(ctx, c.deadline)
	} else if cancellable {
		ctx, c.cancel = vctx.WithCancel(ctx)
	}
	if c.hasG {
		var req interface{} = &reqMsg{Key: key}
		if c.reqList {
			req = &reqListMsg{}
		}
		if c.reqNil {
			req = nil // interceptor context present, but no request message
		}
		c.gctx = &gcpContext{reqMsg: req}
		ctx = context.WithValue(ctx, gcpKey, c.gctx)
	}
	c.ctx = ctx
	if c.hasG && !c.reqList && !c.reqNil && (cmd == "bound" || cmd == "unbind") && key != "" {
		c.keyBound = w.bind[key]
	}
	if _, real := c.pub.picker.(*gcpPicker); cmd == "bind" && w.cfg.RR && real && len(c.pub.ready) > 0 {
		// the call takes a round-robin turn (a picker without READY channels
		// tells every call to wait before any assignment)
		c.rrEpoch, c.rrSeq = w.rrEpoch, w.rrSeq
		w.rrSeq++
		c.rrTurn = true
	}
	info := balancer.PickInfo{FullMethodName: c.method, Ctx: ctx}
	picker := c.pub.picker
	c.th = w.s.Go("pick", func() {
		c.res, c.err = picker.Pick(info)
		c.returned = true
	})
	w.calls = append(w.calls, c)
	w.s.WaitQuiescent()
	// the pick itself, and any parked pick that was released, are handled in afterOp
}

// parkLegit: may this unfinished pick legitimately wait?
func (w *poolWorld) parkLegit(c *call) bool {
	if !(c.cmd == "bind" && w.cfg.RR) {
		return false
	}
	if _, ok := c.pub.picker.(*gcpPicker); !ok {
		return false
	}
	return true
}

func errClass(err error) string {
	switch err {
	case nil:
		return "placed"
	case balancer.ErrNoSubConnAvailable:
		return "ErrNoSubConnAvailable"
	case balancer.ErrTransientFailure:
		return "ErrTransientFailure"
	}
	return "error"
}

func inSlots(l []*refSlot, s *refSlot) bool {
	for _, x := range l {
		if x == s {
			return true
		}
	}
	return false
}

func (w *poolWorld) onPickReturn(c *call) {
	c.judged = true
	c.start = w.s.Clock()
	cls := errClass(c.err)
	desc := fmt.Sprintf("pick(%s,%s,%s,%s) -> %s", c.cmd, c.key, c.gen, c.ctxs, cls)
	_, isReal := c.pub.picker.(*gcpPicker)
	latest := c.pub == w.pubAtStart(c)
	// C04.R2
	if (c.pub.state == connectivity.TransientFailure) != (c.err == balancer.ErrTransientFailure) {
		w.violate("C04", "C04.R2", "transient-failure error does not match the published state", fmt.Sprintf("%s on a picker published with %v", desc, c.pub.state))
	}
	if c.pub.state == connectivity.TransientFailure {
		w.nontriv["C04tf"] = true
	}
	creations := 0
	for _, e := range w.cc.events {
		if e.Kind == "NewSubConn" || e.Kind == "NewSubConn-failed" {
			creations++
		}
	}
	if c.err == nil {
		sc, _ := c.res.SubConn.(*fakeSC)
		c.sc = sc
		if sc == nil || c.res.Done == nil {
			w.violate("C05", "C05.RESULT", "pick returned no connection and no error", desc)
			w.poisoned = true
			return
		}
		c.slot = w.slotOf(sc)
		desc += fmt.Sprintf(" %v", sc)
		if c.slot == nil || c.slot.cur != sc {
			w.violate("C07", "C07.T4", "pick returned a connection that is not the current connection of any channel", desc)
		} else {
			c.slot.inflight++
		}
	}
	keyed := c.keyBound != nil
	isRRBind := c.cmd == "bind" && w.cfg.RR
	switch {
	case !isReal:
	case keyed:
		w.judgeKeyed(c, desc, latest)
	case isRRBind:
		w.judgeRR(c, desc)
	default:
		w.judgeUnkeyed(c, desc, creations)
	}
	if c.err != nil {
		// not an open call
		w.dropCall(c)
		if creations > 0 && !(c.err == balancer.ErrNoSubConnAvailable) {
			w.violate("C03", "C03.R2", "growth by a pick that was not told to wait", desc)
		}
	} else if creations > 0 {
		w.violate("C03", "C03.R2", "growth by a pick that was placed", desc)
	}
}

// pubAtStart: the latest publication that existed when the call was started.
func (w *poolWorld) pubAtStart(c *call) *publication {
	// picks run atomically in history mode, so publications made during the
	// pick itself cannot exist; the latest one before it is the last one whose
	// operation index is below the pick's.
	var p *publication
	for _, x := range w.cc.pubs {
		p = x
	}
	return p
}

func (w *poolWorld) dropCall(c *call) {
	for i, x := range w.calls {
		if x == c {
			w.calls = append(w.calls[:i], w.calls[i+1:]...)
			return
		}
	}
}

func (w *poolWorld) judgeUnkeyed(c *call, desc string, creations int) {
	ready := c.pub.ready
	if c.err == nil && c.slot != nil {
		// C02.R1
		w.nontriv["C02"] = true
		if !inSlots(ready, c.slot) {
			w.violate("C02", "C02.R1", "placed on a channel that was not READY when the picker was published", desc)
		} else {
			min := 1 << 30
			for _, s := range ready {
				n := s.inflight
				if s == c.slot {
					n-- // already counted
				}
				if n < min {
					min = n
				}
			}
			if c.slot.inflight-1 != min {
				w.violate("C02", "C02.R1", "not placed on a least-loaded channel", fmt.Sprintf("%s has %d active streams, minimum among the picker's channels is %d", desc, c.slot.inflight-1, min))
			}
		}
		// placed although growth was due? statement: the call that finds the pool
		// saturated below max is told to wait.
		if w.saturated(ready, c.slot) && w.poolBefore() < w.cfg.effMax() && !w.anyConnectingBefore() {
			w.violate("C03", "C03.R2", "saturated pool below max: call placed instead of growing", desc)
		}
		if w.saturated(ready, c.slot) && w.poolBefore() >= w.cfg.effMax() {
			w.nontriv["C03max"] = true
		}
	}
	if c.err == balancer.ErrNoSubConnAvailable {
		sat := w.saturated(ready, nil)
		switch {
		case len(ready) == 0:
		case sat && w.poolBefore() < w.cfg.effMax():
			// growth path: a connection is created unless one is idle/connecting
			if creations == 0 && !w.anyConnectingBefore() {
				w.violate("C03", "C03.R2", "saturated pool below max did not grow", desc)
			}
			w.nontriv["C03grow"] = true
		case sat:
			w.violate("C03", "C03.R4", "pool at max and saturated: call not placed", desc)
		default:
			w.violate("C02", "C02.R1", "call told to wait although a channel has capacity", desc)
		}
		if creations > 0 {
			if !(sat && len(ready) > 0) || w.anyConnectingBefore() {
				w.violate("C03", "C03.R2", "pool grew without the growth condition", fmt.Sprintf("%s created a connection; saturated=%v idle/connecting=%v", desc, sat, w.anyConnectingBefore()))
			}
		}
	}
	if c.err != nil && c.err != balancer.ErrNoSubConnAvailable && c.err != balancer.ErrTransientFailure {
		// errors for malformed input are fine (C05 only requires no crash)
		_ = desc
	}
}

func (w *poolWorld) saturated(ready []*refSlot, placed *refSlot) bool {
	if len(ready) == 0 {
		return false
	}
	for _, s := range ready {
		n := s.inflight
		if s == placed {
			n--
		}
		if n < w.cfg.effWM() {
			return false
		}
	}
	return true
}

func (w *poolWorld) anyConnecting() bool {
	for _, s := range w.liveSlots() {
		if s.state == connectivity.Idle || s.state == connectivity.Connecting {
			return true
		}
	}
	return false
}

// poolBefore: number of pool channels before the current operation's creations.
func (w *poolWorld) poolBefore() int {
	created := map[*fakeSC]bool{}
	for _, e := range w.cc.events {
		if e.Kind == "NewSubConn" {
			created[e.SC] = true
		}
	}
	n := 0
	for _, s := range w.liveSlots() {
		if !created[s.cur] {
			n++
		}
	}
	return n
}

// anyConnectingBefore ignores connections created in the current operation.
func (w *poolWorld) anyConnectingBefore() bool {
	created := map[*fakeSC]bool{}
	for _, e := range w.cc.events {
		if e.Kind == "NewSubConn" {
			created[e.SC] = true
		}
	}
	for _, s := range w.liveSlots() {
		if created[s.cur] {
			continue
		}
		if s.state == connectivity.Idle || s.state == connectivity.Connecting {
			return true
		}
	}
	return false
}

func (w *poolWorld) judgeKeyed(c *call, desc string, latest bool) {
	home := c.keyBound
	w.nontriv["C01"] = true
	if home.gone {
		return // the statement is silent about keys of a channel that left the pool
	}
	homeReady := home.state == connectivity.Ready
	if homeReady {
		if c.err == nil && c.slot != home {
			w.violate("C01", "C01.R1", "bound key placed on another channel while its channel is READY"+w.swapTag(home), fmt.Sprintf("%s; key bound to %v", desc, home))
		}
		if latest && (c.err != nil || c.slot != home) {
			w.violate("C01", "C01.R2", "latest picker does not place a bound key on its READY channel"+w.swapTag(home), fmt.Sprintf("%s; key bound to %v which is READY", desc, home))
			if w.cfg.Fallback {
				w.violate("C08", "C08.F3", "call for a bound key not placed on its READY home channel", fmt.Sprintf("%s; key bound to %v which is READY", desc, home))
			}
		}
		if w.cfg.Fallback {
			w.nontriv["C08home"] = true
		}
		return
	}
	if !w.cfg.Fallback {
		if c.err == nil {
			w.violate("C01", "C01.R3", "bound key placed although its channel is not READY (fallback off)", desc)
		} else if latest && c.err != balancer.ErrNoSubConnAvailable && c.err != balancer.ErrTransientFailure {
			w.violate("C01", "C01.R3", "bound key with channel not READY: error other than no-channel-available", fmt.Sprintf("%s: %v", desc, c.err))
		}
		w.nontriv["C01r3"] = true
		return
	}
	// C08
	anyReady := len(w.refReadySlots()) > 0
	w.nontriv["C08"] = true
	if c.err == nil && c.slot != nil && c.slot.state != connectivity.Ready {
		w.violate("C08", "C08.F1", "fallback placed the call on a channel that is not READY", desc)
	}
	if latest && anyReady && c.err != nil {
		w.violate("C08", "C08.F1", "no stand-in although a READY channel exists"+w.satTag(), fmt.Sprintf("%s; home %v is %v", desc, home, home.state))
	}
	if c.err == nil && c.slot != nil {
		if si, ok := w.standin[c.key]; ok && latest {
			if si != c.slot {
				w.violate("C08", "C08.F2", "stand-in changed while it stayed READY and home stayed down", fmt.Sprintf("%s; previous stand-in %v", desc, si))
			}
		} else if latest {
			w.standin[c.key] = c.slot
		}
	}
}

func (w *poolWorld) swapTag(s *refSlot) string {
	if s.swaps > 0 {
		return " (after a refresh of that channel)"
	}
	return ""
}

func (w *poolWorld) satTag() string {
	if w.saturated(w.refReadySlots(), nil) {
		return " (all READY channels at the watermark)"
	}
	return ""
}

func (w *poolWorld) judgeRR(c *call, desc string) {
	w.nontriv["C09"] = true
	ctxDone := c.ctx.Err() != nil
	if !c.rrTurn {
		if c.err != balancer.ErrNoSubConnAvailable {
			w.violate("C09", "C09.Q2", "BIND on a picker without READY channels was not told to wait", fmt.Sprintf("%s: %v", desc, c.err))
		}
		return
	}
	if c.err != nil {
		w.violate("C09", "C09.Q2", "round-robin BIND returned an error", fmt.Sprintf("%s: %v", desc, c.err))
		return
	}
	if c.slot == nil {
		return
	}
	if c.slot.state != connectivity.Ready && !ctxDone {
		w.violate("C09", "C09.Q2", "BIND handed a channel that is not READY while its context is live", desc)
	}
	live := w.liveSlots()
	if c.rrEpoch != w.rrEpoch || len(live) == 0 {
		return
	}
	idx := -1
	for i, s := range live {
		if s == c.slot {
			idx = i
		}
	}
	n := len(live)
	if idx < 0 {
		return
	}
	if !w.rrBaseOK {
		w.rrBase = ((idx-c.rrSeq)%n + n) % n
		w.rrBaseOK = true
		return
	}
	if exp := (w.rrBase + c.rrSeq) % n; exp != idx {
		w.violate("C09", "C09.Q1", "BIND not assigned in creation order cyclically", fmt.Sprintf("%s: BIND #%d since the pool changed went to channel %d, round-robin order requires %d (n=%d)", desc, c.rrSeq, idx, exp, n))
	}
}

// ---- completions ----

var cdeErr = status.Error(codes.DeadlineExceeded, context.DeadlineExceeded.Error())
var sdeErr = status.Error(codes.DeadlineExceeded, "deadline exceeded on the server")
var unavailErr = status.Error(codes.Unavailable, "unavailable")

func (w *poolWorld) doDone(i int, outcome string) {
	if i >= len(w.calls) {
		panic(vsched.CheckError{Msg: "done: call index out of range"})
	}
	c := w.calls[i]
	var di balancer.DoneInfo
	var replyKeys []string
	switch {
	case outcome == "ok":
		if c.cmd == "bind" {
			replyKeys = []string{}
		}
	case strings.HasPrefix(outcome, "ok:"):
		replyKeys = strings.Split(outcome[3:], "+")
	case outcome == "err":
		di.Err = unavailErr
	case outcome == "cde":
		di.Err = cdeErr
	case outcome == "cdeb":
		// the client-side deadline ended a call that had already sent and received bytes (a stream
		// that stalled): still a call that "ends with a client-side deadline-exceeded error"
		di.Err, di.BytesSent, di.BytesReceived = cdeErr, true, true
		outcome = "cde"
	case outcome == "sde":
		di.Err = sdeErr
	case outcome == "nr":
	}
	// the byte flags gRPC reports: a call that got a reply or a status from the server has sent and
	// received bytes; "nr" (ended without a reply message) has only sent
	switch {
	case outcome == "ok" || strings.HasPrefix(outcome, "ok:") || outcome == "sde":
		di.BytesSent, di.BytesReceived = true, true
	case outcome == "nr":
		di.BytesSent = true
	}
	if c.gctx != nil && replyKeys != nil {
		c.gctx.replyMsg = &replyMsg{Key: replyKeys}
	} else if c.gctx != nil && outcome == "ok" && c.cmd != "bind" {
		c.gctx.replyMsg = &otherMsg{Name: "x"}
	}
	done := c.res.Done
	th := w.runThread("done", func() { done(di) })
	w.dropCall(c)
	if !w.classify(th, "completion("+c.cmd+")", false) {
		return
	}
	slot := c.slot
	if slot != nil {
		slot.inflight--
	}
	now := w.s.Clock()
	// ---- C07 detector ----
	creations, failed := 0, 0
	var created *fakeSC
	for _, e := range w.cc.events {
		if e.Kind == "NewSubConn" {
			creations++
			created = e.SC
		}
		if e.Kind == "NewSubConn-failed" {
			creations++
			failed++
		}
	}
	if !w.cfg.detection() {
		if creations != 0 {
			w.violate("C07", "C07.T7", "refresh with detection disabled", fmt.Sprintf("completion created %d connections", creations))
		}
	} else if slot != nil {
		expect := 0
		if outcome != "cde" {
			slot.base, slot.deCnt, slot.k = now, 0, 0
		} else if !c.start.Before(slot.base) {
			slot.deCnt++
			win := new(big.Int).Mul(big.NewInt(int64(w.cfg.RefMs)), new(big.Int).Lsh(big.NewInt(1), uint(slot.k)))
			win.Mul(win, big.NewInt(int64(ms)))
			el := big.NewInt(int64(now.Sub(slot.base)))
			if slot.deCnt >= int(w.cfg.RefCalls) && el.Cmp(win) > 0 && !slot.refreshing && !slot.gone {
				expect = 1
			}
			w.nontriv["C07de"] = true
		}
		if creations != expect {
			cause := "refresh not triggered although the rule is met"
			if creations > expect {
				cause = "refresh triggered although the rule is not met"
			}
			if slot.refreshing {
				cause += " (refresh already in progress)"
			}
			w.violate("C07", "C07.T1", cause, fmt.Sprintf("completion %s of call on %v: created %d connections, rule says %d (deadline calls since last response=%d/%d, since last response=%v, window=%dms*2^%d, refreshing=%v)",
				outcome, slot, creations, expect, slot.deCnt, w.cfg.RefCalls, now.Sub(slot.base).Round(10*time.Microsecond), w.cfg.RefMs, slot.k, slot.refreshing))
		}
		if creations == 1 && failed == 0 && created != nil {
			if old := slot.pending; old != nil && old != created && !old.removed && !old.shutdown {
				// C03: a refresh may hold ONE extra connection per refreshing channel until the swap
				w.violate("C03", "C03.R3", "second replacement connection for a channel whose first replacement is still alive",
					fmt.Sprintf("%v: replacement %v is still connecting and %v was created as well (%d connections for a pool of %d)", slot, old, created, w.liveConns(), len(w.liveSlots())))
			}
			slot.refreshing = true
			slot.pending = created
			w.nontriv["C07"] = true
		}
		if expect == 1 && failed == 1 {
			// C07.T6: a failed attempt must not disable later refreshes: the
			// reference stays "not refreshing".
			w.nontriv["C07fail"] = true
		}
	}
	w.checkCreationAddrs()
	// ---- C01 reference bindings ----
	if di.Err == nil && c.hasG && outcome != "nr" {
		switch c.cmd {
		case "bind":
			for _, k := range replyKeys {
				if _, ok := w.bind[k]; !ok && slot != nil {
					w.bind[k] = slot
					w.nontriv["C01bind"] = true
				}
			}
		case "unbind":
			if !c.reqList && !c.reqNil {
				if _, ok := w.bind[c.key]; ok {
					delete(w.bind, c.key)
					delete(w.standin, c.key)
					w.nontriv["C01unbind"] = true
				}
			}
		}
	}
}

// ---- after every operation ----

func (w *poolWorld) afterOp(kind string, pubsBefore int) {
	// creations by picks become slots; replacement creations were taken by doDone
	if kind == "pick" || kind == "adv" || kind == "state" || kind == "cancel" {
		for _, e := range w.cc.events {
			if e.Kind == "NewSubConn" && w.slotOf(e.SC) == nil && w.pendingOf(e.SC) == nil {
				w.absorbCreations(kind)
				break
			}
		}
		w.checkCreationAddrs()
	}
	// picks that returned during this operation (the new one, or parked ones)
	for _, c := range append([]*call{}, w.calls...) {
		if c.judged {
			continue
		}
		if c.th.Done() {
			if !w.classify(c.th, "pick("+c.cmd+")", false) {
				return
			}
			if c.returned {
				w.onPickReturn(c)
				if w.poisoned {
					return
				}
			}
			continue
		}
		if !w.classify(c.th, "pick("+c.cmd+")", w.parkLegit(c)) {
			return
		}
		// C09.Q3: a parked BIND must have returned if its context ended or every
		// channel is READY
		if c.ctx.Err() != nil {
			w.violate("C09", "C09.Q3", "BIND still waiting after its context ended", fmt.Sprintf("call %d", c.id))
		}
		allReady := true
		for _, s := range w.liveSlots() {
			if s.state != connectivity.Ready {
				allReady = false
			}
		}
		if allReady && len(w.liveSlots()) > 0 {
			w.violate("C09", "C09.Q3", "BIND still waiting although every channel is READY", fmt.Sprintf("call %d", c.id))
		}
		if w.rrBaseOK && c.rrEpoch == w.rrEpoch {
			live := w.liveSlots()
			exp := live[(w.rrBase+c.rrSeq)%len(live)]
			if exp.state == connectivity.Ready {
				w.violate("C09", "C09.Q3", "BIND still waiting although its assigned channel is READY", fmt.Sprintf("call %d assigned to %v", c.id, exp))
			}
		}
		w.nontriv["C09park"] = true
	}
	// C03.R3 pool size
	if n, max := len(w.liveSlots()), w.cfg.effMax(); n > max && w.cfg.effMin() <= max {
		w.violate("C03", "C03.R3", "pool larger than maxSize", fmt.Sprintf("%d channels, maxSize %d", n, max))
	}
	// C04.R1
	if len(w.cc.pubs) > 0 {
		last := w.cc.pubs[len(w.cc.pubs)-1]
		if agg := w.aggregate(); last.state != agg && len(w.liveSlots()) > 0 {
			w.violate("C04", "C04.R1", fmt.Sprintf("published %v, pool aggregate is %v", last.state, agg), fmt.Sprintf("pool: %s", w.refString()))
		}
	}
	// C02.R2 (white-box): stream counters equal the reference in-flight counts
	w.checkCounters()
}

func (w *poolWorld) checkCounters() {
	refs := reflect.ValueOf(w.gb).Elem().FieldByName("scRefs")
	if !refs.IsValid() || refs.Kind() != reflect.Map {
		return
	}
	for _, s := range w.liveSlots() {
		v := refs.MapIndex(reflect.ValueOf(balancer.SubConn(s.cur)))
		if !v.IsValid() || v.IsNil() {
			continue
		}
		f := v.Elem().FieldByName("streamsCnt")
		if !f.IsValid() {
			return
		}
		if int(f.Int()) != s.inflight {
			cause := "stream counter differs from placed-minus-completed"
			if f.Int() < 0 {
				cause = "negative stream counter"
			}
			w.violate("C02", "C02.R2", cause, fmt.Sprintf("%v: counter=%d, calls placed and not completed=%d", s, f.Int(), s.inflight))
		}
	}
}

func (w *poolWorld) refString() string {
	var b []string
	for _, s := range w.slots {
		x := fmt.Sprintf("%v:%v,inflight=%d", s, s.state, s.inflight)
		if s.pending != nil {
			x += fmt.Sprintf(",pending=%v", s.pending)
		}
		if s.gone {
			x += ",gone"
		}
		b = append(b, x)
	}
	return strings.Join(b, " ")
}

// ---- World interface ----

func (w *poolWorld) Poisoned() bool { return w.poisoned }
func (w *poolWorld) Take() []vsched.Violation {
	v := w.viol
	w.viol = nil
	return v
}

// premiseTags: which monitor tags mean that the premise of a rule of the
// property was exercised on the way to a state.
var premiseTags = map[string][]string{
	"C01": {"C01", "C01r3", "C01unbind"},
	"C02": {"C02"},
	"C03": {"C03grow", "C03max"},
	"C04": {"C04", "C04tf"},
	"C07": {"C07", "C07de", "C07fail"},
	"C08": {"C08"},
	"C09": {"C09", "C09park"},
	"C20": {"C20", "C20swap"},
}

func (w *poolWorld) Nontrivial() bool {
	tags, ok := premiseTags[w.cfg.Prop]
	if !ok {
		return len(w.nontriv) > 0 || w.opIndex > len(w.cfg.Setup)
	}
	for _, t := range tags {
		if w.nontriv[t] {
			return true
		}
	}
	return false
}

func (w *poolWorld) Key() string {
	// rank connections by creation order among those still referenced
	rank := map[*fakeSC]int{}
	var live []*fakeSC
	for _, sc := range w.cc.scs {
		if !sc.shutdown || w.slotOf(sc) != nil {
			live = append(live, sc)
		}
	}
	for i, sc := range live {
		rank[sc] = i
	}
	scName := func(sc *fakeSC) string {
		if sc == nil {
			return "sc-nil"
		}
		if sc.unknown {
			return "sc-unknown"
		}
		if r, ok := rank[sc]; ok {
			return fmt.Sprintf("sc%d", r)
		}
		return "sc-dead"
	}
	fakeSCType := reflect.TypeOf((*fakeSC)(nil))
	fakeCCType := reflect.TypeOf((*fakeCC)(nil))
	d := &vsched.Dumper{Now: w.s.Clock(),
		InScope: func(t reflect.Type) bool {
			return strings.HasSuffix(t.PkgPath(), "/grpcgcp") && t.Name() != "GCPBalancerConfig"
		},
		SkipField: func(typ, f string) bool {
			return f == "log" || (typ == "gcpBalancer" && (f == "rrRefId" || f == "cfg" || f == "methodCfg"))
		},
		Foreign: func(v reflect.Value) (string, bool) {
			switch v.Type() {
			case fakeSCType:
				if v.IsNil() {
					return "sc-nil", true
				}
				return scName((*fakeSC)(v.UnsafePointer())), true
			case fakeCCType:
				return "cc", true
			}
			return "", false
		}}
	var b strings.Builder
	b.WriteString(d.Dump(w.gb))
	fmt.Fprintf(&b, "|rr=%d", (uint64(w.gb.rrRefId)+1)%12)
	b.WriteString("|scs=")
	for _, sc := range live {
		fmt.Fprintf(&b, "%s:%v,%v,%s,%v;", scName(sc), sc.state, sc.reported, sc.addrs, sc.removed)
	}
	fmt.Fprintf(&b, "|unk=%v|fail=%v|addrs=%s|res=%v|closed=%v", w.unknown.state, w.cc.failFactory, w.addrs, w.resolved, w.closed)
	b.WriteString("|calls=")
	now := w.s.Clock()
	rel := func(t time.Time) int64 {
		return int64(t.Sub(now).Round(100*time.Microsecond) / (100 * time.Microsecond))
	}
	for _, c := range w.calls {
		fmt.Fprintf(&b, "(%s,%s,%s,%v,g%d,%s", c.cmd, c.key, c.ctxs, c.returned, c.pub.gen-len(w.cc.pubs), scName(c.sc))
		if c.returned {
			fmt.Fprintf(&b, ",st%d", rel(c.start))
		}
		if c.hasDL {
			fmt.Fprintf(&b, ",dl%d", rel(c.deadline))
		}
		b.WriteString(")")
	}
	// pickers still reachable by the alphabet
	b.WriteString("|pubs=")
	seen := map[*publication]bool{}
	for _, g := range []string{"L", "P", "O"} {
		p := w.pubFor(g)
		if p == nil || seen[p] {
			continue
		}
		seen[p] = true
		fmt.Fprintf(&b, "%s:%v[", g, p.state)
		if gp, ok := p.picker.(*gcpPicker); ok {
			for _, r := range gp.scRefs {
				b.WriteString(scName(r.subConn.(*fakeSC)) + ",")
			}
		} else {
			b.WriteString("err")
		}
		b.WriteString("]")
	}
	// reference model (must be a function of the above; included so that a
	// disagreement cannot be merged away)
	b.WriteString("|ref=")
	for _, s := range w.slots {
		fmt.Fprintf(&b, "%d:%s/%s,%v,%d,%d,%d,%v,%v,b%d;", s.idx, scName(s.cur), scName(s.pending), s.state, s.inflight, s.deCnt, s.k, s.refreshing, s.gone, rel(s.base))
	}
	var ks []string
	for k, s := range w.bind {
		ks = append(ks, fmt.Sprintf("%s->%d", k, s.idx))
	}
	for k, s := range w.standin {
		ks = append(ks, fmt.Sprintf("%s~>%d", k, s.idx))
	}
	sort.Strings(ks)
	b.WriteString(strings.Join(ks, ","))
	fmt.Fprintf(&b, "|rrref=%v,%d", w.rrBaseOK, w.rrBase)
	// pending virtual timers (tickers of parked picks, context deadlines)
	b.WriteString("|timers=")
	for _, t := range w.s.Pending() {
		fmt.Fprintf(&b, "%s@%d,", t.Label, rel(t.When))
	}
	return b.String()
}

// Feature abstracts the pool's state for automatic root selection: per channel
// its reported state, refresh status, refresh count, in-flight load; the
// bindings and stand-ins; the open calls; the distinct pickers still reachable.
func (w *poolWorld) Feature() string {
	var b strings.Builder
	min2 := func(n int) int {
		if n > 2 {
			return 2
		}
		return n
	}
	for _, s := range w.slots {
		if s.gone {
			b.WriteString("gone;")
			continue
		}
		fmt.Fprintf(&b, "%v,r%v,p%v,k%d,s%d,i%d;", s.state, s.refreshing, s.pending != nil, min2(s.k), min2(s.swaps), min2(s.inflight))
	}
	var ks []string
	for k, s := range w.bind {
		ks = append(ks, fmt.Sprintf("%s@%d:%v", k, s.idx, s.state))
	}
	for k, s := range w.standin {
		ks = append(ks, fmt.Sprintf("%s~%d", k, s.idx))
	}
	sort.Strings(ks)
	b.WriteString(strings.Join(ks, ","))
	past, open := 0, 0
	for _, c := range w.calls {
		if c.returned && c.sc != nil {
			open++
			if c.hasDL && !w.s.Clock().Before(c.deadline) {
				past++
			}
		}
	}
	pubs := map[*publication]bool{}
	for _, g := range []string{"L", "P", "O"} {
		if p := w.pubFor(g); p != nil {
			pubs[p] = true
		}
	}
	fmt.Fprintf(&b, "|open%d,past%d|pickers%d", min2(open), min2(past), len(pubs))
	return b.String()
}
