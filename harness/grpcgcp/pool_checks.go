//go:build verif && go1.18

package grpcgcp

import (
	"fmt"
	"io"
	"os"
	"sort"
	"strings"
	"testing"

	"google.golang.org/grpc/grpclog"

	"verif/engine/vsched"
)

func TestVerif(t *testing.T) {
	// highest verbosity, output discarded: the verbosity-guarded log statements of the library (and the
	// expressions they evaluate) are part of what runs in production when somebody turns logging up
	grpclog.SetLoggerV2(grpclog.NewLoggerV2WithVerbosity(io.Discard, io.Discard, io.Discard, 99))
	compLogger = grpclog.Component("grpcgcp")
	checks := map[string]vsched.CheckFunc{}
	for _, p := range []string{"C01", "C02", "C03", "C04", "C05", "C06", "C07", "C08", "C09", "C20"} {
		p := p
		checks[p] = func(c *vsched.RunCtx) { checkPool(c, p) }
	}
	for k, v := range extraChecks {
		checks[k] = v
	}
	vsched.Main(checks)
}

var extraChecks = map[string]vsched.CheckFunc{}

// readyPool: setup prefix that resolves and brings the first n connections to READY.
func readyPool(n int) []string {
	ops := []string{"resolve(a1)"}
	for i := 0; i < n; i++ {
		ops = append(ops, fmt.Sprintf("state(%d,CONNECTING)", i), fmt.Sprintf("state(%d,READY)", i))
	}
	return ops
}

func poolConfigs(prop string, thorough bool) (cfgs []poolCfg, depth int) {
	add := func(c poolCfg) { cfgs = append(cfgs, c) }
	switch prop {
	case "C01":
		depth = 5
		if thorough {
			depth = 7
		}
		for _, n := range []uint32{2} {
			for _, fb := range []bool{false, true} {
				for _, rf := range []bool{false, true} {
					for _, rr := range []bool{false, true} {
						c := poolCfg{Name: fmt.Sprintf("C01 pool=%d fallback=%v refresh=%v rr=%v", n, fb, rf, rr), Min: n, Max: n, WM: 100, Fallback: fb, RR: rr,
							Setup: readyPool(int(n))}
						c.A = alphabet{States: "basic", Cmds: []string{"bind", "bound", "unbind", "plain"}, Keys: []string{"k1", "k2"}, Gens: []string{"L", "P"},
							Ctx: []string{"g"}, Done: []string{"ok", "ok:k1", "ok:k1+k2", "err"}, MaxOpen: 2, MaxSC: int(n) + 1}
						if rf {
							c.RefCalls, c.RefMs = 1, 1
							c.A.Ctx = []string{"g,d1"}
							c.A.Done = append(c.A.Done, "cde")
							c.A.Adv = []int{2}
							c.A.MaxSC = int(n) + 2
						}
						add(c)
						if rf {
							// non-initial roots: a key already bound; and additionally a
							// refresh of its channel already in flight
							b := c
							b.Name += " root=bound"
							b.Setup = append(append([]string{}, c.Setup...), "pick(bind,,L,g)", "done(0,ok:k1)")
							add(b)
							r := b
							r.Name = c.Name + " root=bound+refreshing"
							r.Setup = append(append([]string{}, b.Setup...), "pick(plain,,L,g,d1)", "adv(2)", "done(0,cde)")
							add(r)
							if !rr {
								// a BIND call still in flight on a channel whose refresh is in
								// flight (replacement connecting): its reply binds across the swap
								f := c
								f.Name += " root=bind-inflight+refreshing"
								f.Setup = append(append([]string{}, c.Setup...), "pick(bind,,L,g)", "pick(plain,,L,g,d1)", "pick(plain,,L,g,d1)", "adv(2)", "done(2,cde)", fmt.Sprintf("state(%d,CONNECTING)", n))
								f.A.MaxOpen = 3
								add(f)
							}
						}
					}
				}
			}
		}
		// re-binding during a fallback episode: three channels, root: key bound to channel 0,
		// channel 0 down, the key served by a stand-in
		rb := poolCfg{Name: "C01 pool=3 fallback rebind root=standin", Min: 3, Max: 3, WM: 100, Fallback: true,
			Setup: append(readyPool(3), "pick(bind,,L,g)", "done(0,ok:k1)", "state(0,IDLE)", "pick(bound,k1,L,g)")}
		rb.A = alphabet{States: "basic", Cmds: []string{"bind", "bound", "unbind"}, Keys: []string{"k1"}, Gens: []string{"L"},
			Ctx: []string{"g"}, Done: []string{"ok", "ok:k1", "err"}, MaxOpen: 3, MaxSC: 4}
		rb.Depth = 6
		add(rb)
	case "C02":
		depth = 5
		if thorough {
			depth = 7
		}
		for _, n := range []uint32{2, 3} {
			for _, wm := range []uint32{100, 2} {
				for _, feat := range []string{"plain", "fallback", "refresh", "rr"} {
					c := poolCfg{Name: fmt.Sprintf("C02 pool=%d wm=%d %s", n, wm, feat), Min: n, Max: n, WM: wm, Setup: readyPool(int(n))}
					if wm == 2 {
						c.Min, c.Max = n-1, n
						c.Setup = readyPool(int(n) - 1)
					}
					c.A = alphabet{States: "basic", Cmds: []string{"plain", "bind", "bound"}, Keys: []string{"k1"}, Gens: []string{"L", "P"},
						Ctx: []string{"g"}, Done: []string{"ok", "err", "nr", "sde"}, MaxOpen: 3, MaxSC: int(n) + 1}
					switch feat {
					case "fallback":
						c.Fallback = true
					case "refresh":
						c.RefCalls, c.RefMs = 1, 1
						c.A.Ctx = []string{"g,d1"}
						c.A.Done = append(c.A.Done, "cde")
						c.A.Adv = []int{2}
					case "rr":
						c.RR = true
					}
					add(c)
				}
			}
		}
		// resolver updates (new address list) while calls are open on channels that left READY
		ru := poolCfg{Name: "C02 pool=2 wm=100 resolver-updates", Min: 2, Max: 2, WM: 100, Depth: 5, Setup: readyPool(2)}
		ru.A = alphabet{Resolve: []string{"a2"}, States: "basic", Cmds: []string{"plain"}, Gens: []string{"L"}, Ctx: []string{"g"}, Done: []string{"ok", "err"}, MaxOpen: 2, MaxSC: 3}
		add(ru)
		// non-initial root: fallback on, the home of a bound key is down; UNBIND calls included: once
		// unbound the key is an unknown key and must be spread like any other
		hd := poolCfg{Name: "C02 pool=3 fallback root=home-down", Min: 3, Max: 3, WM: 100, Fallback: true, Depth: 5,
			Setup: append(readyPool(3), "pick(bind,,L,g)", "done(0,ok:k1)", "state(0,IDLE)")}
		hd.A = alphabet{States: "basic", Cmds: []string{"plain", "bound", "unbind"}, Keys: []string{"k1"}, Gens: []string{"L"}, Ctx: []string{"g"}, Done: []string{"ok"}, MaxOpen: 3, MaxSC: 4}
		add(hd)
		// non-initial root: one channel carries a very large number of bound keys (the per-channel key
		// counter must never weigh in the least-loaded decision)
		for _, nk := range []int{70000, 1 << 24, 1<<31 - 1} {
			c := poolCfg{Name: fmt.Sprintf("C02 pool=2 root=many-keys(%d)", nk), Min: 2, Max: 2, WM: 100, Depth: 4,
				Setup: append(readyPool(2), fmt.Sprintf("keys(0,%d)", nk))}
			c.A = alphabet{Cmds: []string{"plain", "bound"}, Keys: []string{"k1"}, Gens: []string{"L"}, Ctx: []string{"g"}, Done: []string{"ok"}, MaxOpen: 3, MaxSC: 3}
			add(c)
		}
	case "C03":
		depth = 6
		if thorough {
			depth = 8
		}
		for _, m := range [][3]uint32{{0, 0, 1}, {1, 2, 1}, {2, 2, 1}, {1, 3, 2}, {2, 3, 1}, {3, 2, 1}} {
			c := poolCfg{Name: fmt.Sprintf("C03 min=%d max=%d wm=%d", m[0], m[1], m[2]), Min: m[0], Max: m[1], WM: m[2], RefCalls: 1, RefMs: 1}
			c.Setup = []string{"resolve(a1)", "state(0,CONNECTING)", "state(0,READY)"}
			c.A = alphabet{Resolve: []string{"a2"}, States: "basic", Shutdown: true, Cmds: []string{"plain"}, Gens: []string{"L", "P"},
				Ctx: []string{"g,d1"}, Done: []string{"ok", "cde"}, Adv: []int{2}, MaxOpen: 3, MaxSC: 5}
			add(c)
		}
		// non-initial root: a refresh in flight (replacement connecting) and an open call on the old
		// connection: responses and further deadline calls arrive before the swap
		rr := poolCfg{Name: "C03 min=1 max=2 wm=100 root=refreshing", Min: 1, Max: 2, WM: 100, RefCalls: 1, RefMs: 1, Depth: 5,
			Setup: append(readyPool(1), "pick(plain,,L,g,d1)", "pick(plain,,L,g,d1)", "adv(2)", "done(0,cde)", "state(1,CONNECTING)")}
		rr.A = alphabet{States: "basic", Cmds: []string{"plain"}, Gens: []string{"L"}, Ctx: []string{"g,d1"}, Done: []string{"ok", "cde"}, Adv: []int{2}, MaxOpen: 3, MaxSC: 5}
		add(rr)
		// round-robin BIND calls are placed by rotation, whatever the load: they never grow the pool
		rg := poolCfg{Name: "C03 min=2 max=3 wm=1 rr", Min: 2, Max: 3, WM: 1, RR: true, Depth: 5, Setup: readyPool(2)}
		rg.A = alphabet{States: "basic", Cmds: []string{"bind", "plain"}, Gens: []string{"L"}, Ctx: []string{"g"}, Done: []string{"ok"}, MaxOpen: 4, MaxSC: 4}
		add(rg)
		// same with a low watermark: calls that were open on the old connection at the swap must be
		// un-counted when they complete, or the channel looks saturated and the pool grows for nothing
		rw := poolCfg{Name: "C03 min=1 max=2 wm=2 root=refreshing", Min: 1, Max: 2, WM: 2, RefCalls: 1, RefMs: 1, Depth: 5,
			Setup: append(readyPool(1), "pick(plain,,L,g,d1)", "pick(plain,,L,g,d1)", "adv(2)", "done(0,cde)", "state(1,CONNECTING)")}
		rw.A = alphabet{States: "basic", Cmds: []string{"plain"}, Gens: []string{"L"}, Ctx: []string{"g"}, Done: []string{"ok"}, MaxOpen: 3, MaxSC: 5}
		add(rw)
	case "C04":
		depth = 6
		if thorough {
			depth = 8
		}
		for _, n := range []uint32{2, 3} {
			c := poolCfg{Name: fmt.Sprintf("C04 pool=%d", n), Min: n, Max: n, WM: 100, RefCalls: 1, RefMs: 1}
			c.Setup = []string{"resolve(a1)"}
			c.A = alphabet{States: "full", Shutdown: true, Unknown: true, Cmds: []string{"plain"}, Gens: []string{"L", "P", "O"},
				Ctx: []string{"g,d1"}, Done: []string{"cde"}, Adv: []int{2}, MaxOpen: 1, MaxSC: int(n) + 1}
			add(c)
			// non-initial root: all READY and a refresh of channel 0 in flight
			r := c
			r.Name += " root=refreshing"
			r.Setup = append(readyPool(int(n)), "pick(plain,,L,g,d1)", "adv(2)", "done(0,cde)")
			r.A.MaxSC = int(n) + 2
			add(r)
		}
		// resolver errors and resolver updates interleaved with the reports: they must not perturb the
		// published pair either (the invariant is stated for every published state)
		re := poolCfg{Name: "C04 pool=2 resolver-events", Min: 2, Max: 2, WM: 100, Setup: []string{"resolve(a1)"}, Depth: 5}
		re.A = alphabet{Resolve: []string{"a2", "empty"}, ResErr: true, States: "full", Shutdown: true, Cmds: []string{"plain"}, Gens: []string{"L"},
			Ctx: []string{"g"}, Done: []string{"ok"}, MaxOpen: 1, MaxSC: 3}
		add(re)
		// a READY connection reports CONNECTING directly (gRPC resets the transport when UpdateAddresses
		// drops the address in use): a READY-ness change like any other
		rc := poolCfg{Name: "C04 pool=2 ready-to-connecting", Min: 2, Max: 2, WM: 100, Setup: readyPool(2), Depth: 4}
		rc.A = alphabet{States: "basic", R2C: true, Cmds: []string{"plain"}, Gens: []string{"L", "P"}, Ctx: []string{"g"}, Done: []string{"ok"}, MaxOpen: 1, MaxSC: 3}
		add(rc)
		// nothing resolved yet: the first resolver results may be empty (no connection can be created)
		fr := poolCfg{Name: "C04 min=1 max=2 fresh", Min: 1, Max: 2, WM: 100, Depth: 5}
		fr.A = alphabet{Resolve: []string{"a1", "empty"}, ResErr: true, States: "full", Cmds: []string{"plain"}, Gens: []string{"L"},
			Ctx: []string{"g"}, Done: []string{"ok"}, MaxOpen: 1, MaxSC: 3}
		add(fr)
	case "C05", "C06":
		depth = 4
		if thorough {
			depth = 6
		}
		base := alphabet{Resolve: []string{"a2", "empty"}, ResErr: true, States: "basic", Shutdown: true, Unknown: true,
			Cmds: []string{"plain", "bind", "bound", "unbind", "badloc"}, Keys: []string{"k1"}, Gens: []string{"L", "P", "O"},
			Ctx: []string{"g", "n", "el", "gn", "g,d0"}, Done: []string{"ok", "ok:k1", "err", "nr"}, Fail: true, MaxOpen: 2, MaxSC: 4}
		// ("g,d0": the call's deadline has already passed when gRPC asks for a pick)
		base.Close = true
		feats := []string{"all", "plain", "fallback", "refresh", "rr"}
		for _, f := range feats {
			c := poolCfg{Name: prop + " " + f, Min: 1, Max: 2, WM: 1, Setup: readyPool(1), A: base}
			switch f {
			case "all":
				c.Fallback, c.RR, c.RefCalls, c.RefMs = true, true, 1, 1
			case "fallback":
				c.Fallback = true
			case "refresh":
				c.RefCalls, c.RefMs = 1, 1
			case "rr":
				c.RR = true
			}
			if c.RefCalls > 0 {
				c.A.Ctx = []string{"g,d1", "n,d1", "el", "gn", "g,d0"}
				c.A.Done = append(append([]string{}, base.Done...), "cde")
				c.A.Adv = []int{2}
			}
			add(c)
		}
		// the situations C06 names: nothing resolved yet (empty result / failing factory first)
		c := poolCfg{Name: prop + " fresh", Min: 2, Max: 2, WM: 1, Fallback: true, A: base}
		c.A.Resolve = []string{"a1", "empty"}
		add(c)
		cn := poolCfg{Name: prop + " nil-config", NilCfg: true, A: base}
		cn.A.Resolve = []string{"a1", "empty"}
		add(cn)
		// non-initial roots: refresh in flight with a bound key; home down with a stand-in; BIND parked
		r1 := poolCfg{Name: prop + " root=bound+refreshing", Min: 2, Max: 2, WM: 100, Fallback: true, RefCalls: 1, RefMs: 1, A: base,
			Setup: append(readyPool(2), "pick(bind,,L,g)", "done(0,ok:k1)", "pick(plain,,L,g,d1)", "adv(2)", "done(0,cde)", "state(2,CONNECTING)")}
		r1.A.Ctx = []string{"g,d1", "n", "el"}
		r1.A.Done = append(append([]string{}, base.Done...), "cde")
		r1.A.Adv = []int{2}
		r1.A.MaxSC = 5
		r1.Depth = 3
		add(r1)
		r2 := poolCfg{Name: prop + " root=rr-bind-parked", Min: 2, Max: 2, WM: 100, RR: true, A: base,
			Setup: append(readyPool(2), "state(1,IDLE)", "pick(bind,,O,g,c)", "pick(bind,,O,g,c)")}
		r2.A.MaxOpen = 4
		r2.Depth = 3
		add(r2)
		// non-initial roots: k consecutive refreshes of one channel without any response
		for _, k := range []int{3, 5, 6} {
			add(refreshedK(prop, k, base))
		}
		// saturated pool with fallback and a bound key
		cs := poolCfg{Name: prop + " saturated-fallback", Min: 2, Max: 2, WM: 1, Fallback: true, A: base,
			Setup: append(readyPool(2), "pick(bind,,L,g)", "done(0,ok:k1)")}
		add(cs)
	case "C07":
		depth = 6
		if thorough {
			depth = 8
		}
		for _, m := range [][2]uint32{{0, 0}, {0, 5}, {1, 0}, {1, 1}, {1, 2}, {2, 2}, {3, 1}} {
			for _, n := range []uint32{1, 2} {
				if n == 2 && (m[0] == 0 || m[1] == 0 || m[0] == 3) {
					continue
				}
				c := poolCfg{Name: fmt.Sprintf("C07 calls=%d ms=%d pool=%d", m[0], m[1], n), Min: n, Max: n, WM: 100, RefCalls: m[0], RefMs: m[1], Setup: readyPool(int(n))}
				c.A = alphabet{States: "basic", Cmds: []string{"plain"}, Gens: []string{"L"}, Ctx: []string{"g,d1", "g"},
					Done: []string{"ok", "err", "cde", "cdeb", "sde"}, Adv: []int{1, 2}, Fail: true, MaxOpen: 3, MaxSC: int(n) + 2}
				add(c)
				if m[0] == 1 && m[1] >= 1 {
					// non-initial root: a refresh of channel 0 in flight, replacement connecting
					r := c
					r.Name += " root=refreshing"
					r.Setup = append(append([]string{}, c.Setup...), "pick(plain,,L,g,d1)", fmt.Sprintf("adv(%d)", m[1]+1), "done(0,cde)", fmt.Sprintf("state(%d,CONNECTING)", n))
					r.A.MaxSC = int(n) + 3
					add(r)
				}
				if m[0] == 1 && m[1] == 1 && n == 1 {
					// non-initial root: two consecutive refreshes without a response (k=2)
					r := c
					r.Name += " root=refreshed-twice"
					r.Setup = append(append([]string{}, c.Setup...),
						"pick(plain,,L,g,d1)", "adv(2)", "done(0,cde)", "state(1,CONNECTING)", "state(1,READY)",
						"pick(plain,,L,g,d1)", "adv(3)", "done(0,cde)", "state(2,CONNECTING)", "state(2,READY)")
					r.A.MaxSC = int(n) + 4
					r.A.Fail = false
					add(r)
					// non-initial root: after one refresh (k=1) a second refresh is in flight
					// while a call without deadline is still open (a response may arrive
					// during the refresh)
					q := c
					q.Name += " root=second-refresh-inflight+open-call"
					q.Setup = append(append([]string{}, c.Setup...),
						"pick(plain,,L,g,d1)", "adv(2)", "done(0,cde)", "state(1,CONNECTING)", "state(1,READY)",
						"pick(plain,,L,g,d1)", "pick(plain,,L,g)", "adv(3)", "done(0,cde)", "state(2,CONNECTING)")
					q.A.MaxSC = int(n) + 4
					q.A.Fail = false
					q.A.Adv = []int{1, 3}
					add(q)
				}
			}
		}
		for _, k := range []int{3, 5, 6, 8} {
			r := refreshedK("C07", k, alphabet{})
			add(r)
		}
		// round-robin: a BIND pick parked on a channel that is not READY while an older call on that
		// channel gets a response; the BIND call starts (is sent) only when its pick returns
		pb := poolCfg{Name: "C07 calls=1 ms=1 pool=2 rr root=bind-parked-across-response", Min: 2, Max: 2, WM: 100, RR: true, RefCalls: 1, RefMs: 1, Depth: 4,
			Setup: append(readyPool(2), "pick(plain,,L,g,d1)", "pick(plain,,L,g,d1)", "pick(bind,,L,g)", "done(2,ok)", "state(1,IDLE)", "pick(bind,,L,g,d3)", "adv(1)", "done(1,err)")}
		pb.A = alphabet{States: "basic", Cmds: []string{"plain"}, Gens: []string{"L"}, Ctx: []string{"g,d1"}, Done: []string{"ok", "cde"}, Adv: []int{2}, MaxOpen: 4, MaxSC: 4}
		add(pb)
	case "C08":
		depth = 6
		if thorough {
			depth = 8
		}
		for _, n := range []uint32{2, 3} {
			for _, wm := range []uint32{100, 1} {
				for _, rf := range []bool{false, true} {
					c := poolCfg{Name: fmt.Sprintf("C08 pool=%d wm=%d refresh=%v", n, wm, rf), Min: n, Max: n, WM: wm, Fallback: true,
						Setup: append(readyPool(int(n)), "pick(bind,,L,g)", "done(0,ok:k1)")}
					c.A = alphabet{States: "basic", Cmds: []string{"bound", "plain"}, Keys: []string{"k1"}, Gens: []string{"L"},
						Ctx: []string{"g"}, Done: []string{"ok", "err"}, MaxOpen: 2, MaxSC: int(n) + 1}
					if rf {
						c.RefCalls, c.RefMs = 1, 1
						c.A.Ctx = []string{"g,d1"}
						c.A.Done = append(c.A.Done, "cde")
						c.A.Adv = []int{2}
						c.A.MaxSC = int(n) + 2
					}
					add(c)
					if rf && wm == 100 {
						// non-initial root: home down, the key is served by a stand-in whose
						// refresh is in flight (replacement connecting)
						r := c
						r.Name += " root=standin-refreshing"
						r.Setup = append(append([]string{}, c.Setup...), "state(0,IDLE)", "pick(bound,k1,L,g,d1)", "adv(2)", "done(0,cde)", fmt.Sprintf("state(%d,CONNECTING)", n))
						add(r)
					}
				}
			}
		}
		// sizes left to their defaults (max_size omitted: 4), fallback on
		dm := poolCfg{Name: "C08 min=2 max=default wm=100", Min: 2, Max: 0, WM: 100, Fallback: true, Depth: 4,
			Setup: append(readyPool(2), "pick(bind,,L,g)", "done(0,ok:k1)")}
		dm.A = alphabet{States: "basic", Cmds: []string{"bound", "plain"}, Keys: []string{"k1"}, Gens: []string{"L"}, Ctx: []string{"g"}, Done: []string{"ok"}, MaxOpen: 2, MaxSC: 3}
		add(dm)
		// non-initial root: the home came back through a refresh take-over (not through a report of its
		// own) while a stand-in was in use; found by the thorough tier's root search as an oracle bug
		hr := poolCfg{Name: "C08 pool=3 wm=100 refresh root=home-recovered-by-swap", Min: 3, Max: 3, WM: 100, Fallback: true, RefCalls: 1, RefMs: 1, Depth: 3,
			Setup: append(readyPool(3), "pick(bind,,L,g)", "done(0,ok:k1)", "pick(bound,k1,L,g,d1)", "state(0,IDLE)", "pick(bound,k1,L,g,d1)", "adv(2)", "done(0,cde)", "state(3,CONNECTING)", "state(3,READY)")}
		hr.A = alphabet{States: "basic", Cmds: []string{"bound", "plain"}, Keys: []string{"k1"}, Gens: []string{"L"}, Ctx: []string{"g,d1"}, Done: []string{"ok"}, MaxOpen: 4, MaxSC: 6}
		add(hr)
		// keyed calls on superseded pickers (a stale READY snapshot must not choose the stand-in)
		sp := poolCfg{Name: "C08 pool=3 stale-pickers", Min: 3, Max: 3, WM: 100, Fallback: true,
			Setup: append(readyPool(3), "pick(bind,,L,g)", "done(0,ok:k1)")}
		sp.A = alphabet{States: "basic", Cmds: []string{"bound", "plain"}, Keys: []string{"k1"}, Gens: []string{"L", "P", "O"},
			Ctx: []string{"g"}, Done: []string{"ok"}, MaxOpen: 2, MaxSC: 4}
		sp.Depth = 5
		add(sp)
		// re-binding during a fallback episode: three channels, BIND/UNBIND in the alphabet,
		// root: key bound to channel 0, channel 0 down, stand-in established
		rb := poolCfg{Name: "C08 pool=3 rebind root=standin", Min: 3, Max: 3, WM: 100, Fallback: true,
			Setup: append(readyPool(3), "pick(bind,,L,g)", "done(0,ok:k1)", "state(0,IDLE)", "pick(bound,k1,L,g)")}
		rb.A = alphabet{States: "basic", Cmds: []string{"bind", "bound", "unbind"}, Keys: []string{"k1"}, Gens: []string{"L"},
			Ctx: []string{"g"}, Done: []string{"ok", "ok:k1", "err"}, MaxOpen: 3, MaxSC: 4}
		add(rb)
	case "C09":
		depth = 6
		if thorough {
			depth = 8
		}
		for _, n := range []uint32{1, 2, 3} {
			c := poolCfg{Name: fmt.Sprintf("C09 pool=%d", n), Min: n, Max: n, WM: 100, RR: true, RefCalls: 1, RefMs: 1, Setup: []string{"resolve(a1)"}}
			c.A = alphabet{States: "basic", Cmds: []string{"bind", "plain"}, Gens: []string{"L"}, Ctx: []string{"g", "g,c", "g,d1", "g,d0"},
				Done: []string{"ok", "err", "cde"}, Adv: []int{2, 100}, MaxOpen: 3, MaxSC: int(n) + 1}
			add(c)
		}
		// non-initial root: a BIND parked on a channel that is not READY and whose
		// connection is being refreshed (the waiter must follow the swap)
		for _, n := range []uint32{1, 2} {
			r := poolCfg{Name: fmt.Sprintf("C09 pool=%d root=bind-parked+refreshing", n), Min: n, Max: n, WM: 100, RR: true, RefCalls: 1, RefMs: 1}
			r.Setup = append(readyPool(int(n)), "pick(plain,,L,g,d1)", "state(0,IDLE)", "pick(bind,,O,g,c)", "adv(2)", "done(0,cde)", fmt.Sprintf("state(%d,CONNECTING)", n))
			r.A = alphabet{States: "basic", Cmds: []string{"bind", "plain"}, Gens: []string{"L", "O"}, Ctx: []string{"g", "g,c"},
				Done: []string{"ok", "cde"}, Adv: []int{2, 100}, MaxOpen: 3, MaxSC: int(n) + 2}
			r.Depth = 4
			add(r)
		}
		// non-initial root: the old connection of a refresh was shut down before the replacement became
		// READY; the readmitted channel must be back in the rotation
		sr := poolCfg{Name: "C09 pool=2 root=shutdown-while-refreshing", Min: 2, Max: 2, WM: 100, RR: true, RefCalls: 1, RefMs: 1, Depth: 4,
			Setup: append(readyPool(2), "pick(plain,,L,g,d1)", "adv(2)", "done(0,cde)", "state(0,SHUTDOWN)", "state(2,CONNECTING)", "state(2,READY)")}
		sr.A = alphabet{States: "basic", Cmds: []string{"bind", "plain"}, Gens: []string{"L"}, Ctx: []string{"g"}, Done: []string{"ok"}, MaxOpen: 3, MaxSC: 4}
		add(sr)
		// rotation is independent of load: one channel already carries very many streams
		ld := poolCfg{Name: "C09 pool=2 root=loaded-channel", Min: 2, Max: 2, WM: 100, RR: true, Depth: 4, Setup: append(readyPool(2), "streams(0,150)")}
		ld.A = alphabet{Cmds: []string{"bind", "plain"}, Gens: []string{"L"}, Ctx: []string{"g"}, Done: []string{"ok"}, MaxOpen: 4, MaxSC: 3}
		add(ld)
		g := poolCfg{Name: "C09 growth min=2 max=3 wm=1", Min: 2, Max: 3, WM: 1, RR: true, Setup: readyPool(2)}
		g.A = alphabet{States: "basic", Cmds: []string{"bind", "plain"}, Gens: []string{"L"}, Ctx: []string{"g"}, Done: []string{"ok"}, MaxOpen: 3, MaxSC: 3}
		add(g)
	case "C20":
		depth = 6
		if thorough {
			depth = 8
		}
		for _, m := range [][3]uint32{{1, 2, 1}, {2, 2, 100}} {
			c := poolCfg{Name: fmt.Sprintf("C20 min=%d max=%d wm=%d", m[0], m[1], m[2]), Min: m[0], Max: m[1], WM: m[2], RefCalls: 1, RefMs: 1,
				Setup: readyPool(int(m[0]))}
			c.A = alphabet{Resolve: []string{"a1", "a2"}, ResErr: true, States: "basic", Shutdown: true, Cmds: []string{"plain"}, Gens: []string{"L"},
				Ctx: []string{"g,d1"}, Done: []string{"ok", "cde"}, Adv: []int{2}, MaxOpen: 2, MaxSC: 4}
			add(c)
		}
		// address lists that differ only by order / per-address metadata
		so := poolCfg{Name: "C20 min=2 max=2 same-backends", Min: 2, Max: 2, WM: 100, RefCalls: 1, RefMs: 1,
			Setup: []string{"resolve(a1+a2)", "state(0,CONNECTING)", "state(0,READY)", "state(1,CONNECTING)", "state(1,READY)"}}
		so.A = alphabet{Resolve: []string{"a1+a2", "a2+a1", "a1/s+a2"}, States: "basic", Cmds: []string{"plain"}, Gens: []string{"L"},
			Ctx: []string{"g,d1"}, Done: []string{"cde"}, Adv: []int{2}, MaxOpen: 1, MaxSC: 4}
		so.Depth = 5
		add(so)
		// several addresses, pool growth while a refresh is in flight: the grown connection gets the
		// whole latest list too
		mg := poolCfg{Name: "C20 min=1 max=2 wm=1 multi-address root=refreshing", Min: 1, Max: 2, WM: 1, RefCalls: 1, RefMs: 1, Depth: 4,
			Setup: []string{"resolve(a1+a2)", "state(0,CONNECTING)", "state(0,READY)", "pick(plain,,L,g,d1)", "adv(2)", "done(0,cde)"}}
		mg.A = alphabet{Resolve: []string{"a2+a1"}, States: "basic", Cmds: []string{"plain"}, Gens: []string{"L"}, Ctx: []string{"g"}, Done: []string{"ok"}, MaxOpen: 3, MaxSC: 5}
		add(mg)
		// non-initial root: pool of one whose refresh is in flight
		r := poolCfg{Name: "C20 min=1 max=1 root=refreshing", Min: 1, Max: 1, WM: 100, RefCalls: 1, RefMs: 1,
			Setup: append(readyPool(1), "pick(plain,,L,g,d1)", "adv(2)", "done(0,cde)")}
		r.A = alphabet{Resolve: []string{"a1", "a2"}, ResErr: true, States: "basic", Shutdown: true, Cmds: []string{"plain"}, Gens: []string{"L"},
			Ctx: []string{"g,d1"}, Done: []string{"ok", "cde"}, Adv: []int{2}, MaxOpen: 2, MaxSC: 4}
		add(r)
	}
	return
}

func checkPool(c *vsched.RunCtx, prop string) {
	cfgs, depth := poolConfigs(prop, c.Thorough())
	if os.Getenv("VERIF_NO_HANDROOTS") != "" {
		// development experiment: drop the hand-written non-initial roots
		var k []poolCfg
		for _, x := range cfgs {
			if !strings.Contains(x.Name, " root=") {
				k = append(k, x)
			}
		}
		cfgs = k
	}
	for i := range cfgs {
		cfgs[i].Prop = prop
	}
	// schedule part of the property: the concurrency drivers whose verdicts belong to it
	drivers := map[string]string{
		"C02": "pick-done,refresh-race",
		"C03": "grow-race",
		"C05": "grow-race,pick-done,refresh-race,rr-bind,rr-cancel,fallback-pick,fallback-two-pickers,resolve-pick,refresh-resolve,bind-unbind",
		"C06": "grow-race,pick-done,refresh-race,rr-bind,rr-cancel,fallback-pick,fallback-two-pickers,resolve-pick,refresh-resolve,bind-unbind",
		"C08": "fallback-pick,fallback-two-pickers",
		"C07": "refresh-race",
		"C09": "rr-bind,rr-cancel",
		"C20": "resolve-pick,refresh-resolve",
	}[prop]
	if c.Replay != nil {
		if c.Replay.Harness == "key-extraction" {
			runC11(c, prop) // an input enumeration replays by running again (same shard)
			return
		}
		if strings.HasPrefix(c.Replay.Harness, "sched:") {
			runPoolDrivers(c, drivers, false)
		} else if strings.HasPrefix(c.Replay.Harness, "pairs") {
			runPairs(c, false)
		} else {
			replayPool(c, prop, cfgs)
		}
		return
	}
	if drivers != "" {
		runPoolDrivers(c, drivers, false)
	}
	// pairwise atomicity: every pair of operations overlapped in every schedule within the bound,
	// judged by the invariants of this property on the real end state (pairs.go)
	if pairProps[prop] {
		runPairs(c, false)
	}
	// C05 also quantifies over "every request/response message shape and key locator": the totality
	// half of the C11 enumeration (panics and calls that never return), attributed to C05
	if prop == "C05" {
		runC11(c, "C05")
	}
	idx, sub, nsub := c.Split(len(cfgs))
	for _, i := range idx {
		cfg := cfgs[i]
		d := depth
		if cfg.Depth > 0 {
			d = cfg.Depth
			if c.Thorough() {
				d += 2
			}
		}
		res := vsched.BFS(vsched.BFSOpts{Name: "pool", Config: cfg.Name, Depth: d, DevPerOp: 1, Deadline: c.Deadline, Shard: sub, NShards: nsub},
			func(s *vsched.Sched) vsched.World { return newPoolWorld(s, cfg) })
		c.Add(res)
	}
	if c.Thorough() {
		autoRoots(c, prop, cfgs, depth)
	}
	c.Assume("fake balancer.ClientConn modelled on grpc v1.56.3 ccBalancerWrapper: NewSubConn rejects empty address lists, RemoveSubConn is followed by a SHUTDOWN report at an explorer-chosen moment, Done(DoneInfo{}) for a picked-but-not-ready connection; after Close gRPC delivers no balancer callback and refuses NewSubConn, picks on published pickers and completions still arrive (C05/C06 alphabets)",
		"virtual clock; operations are atomic in history mode (sub-operation interleavings are explored by the schedule harnesses)",
		"small scope: <=3 channels, 2 keys, <=3 open calls, 2 address lists")
}

func replayPool(c *vsched.RunCtx, prop string, cfgs []poolCfg) {
	v := c.Replay
	var cfg *poolCfg
	for i := range cfgs {
		if cfgs[i].Name == v.Config {
			cfg = &cfgs[i]
		}
	}
	if cfg == nil {
		// try the other tier's configurations
		other, _ := poolConfigs(prop, !c.Thorough())
		for i := range other {
			if other[i].Name == v.Config {
				cfg = &other[i]
			}
		}
	}
	if cfg == nil && strings.HasSuffix(v.Config, " [root search]") {
		// found by the root search itself (reduced alphabet, same setup as its base configuration)
		for k := range cfgs {
			if cfgs[k].Name == strings.TrimSuffix(v.Config, " [root search]") {
				x := cfgs[k]
				x.Name = v.Config
				cfg = &x
			}
		}
	}
	if cfg == nil {
		if i := strings.Index(v.Config, " auto-root="); i >= 0 {
			for k := range cfgs {
				if cfgs[k].Name == v.Config[:i] {
					x := cfgs[k]
					x.Name = v.Config
					x.Setup = append(append([]string{}, x.Setup...), strings.Split(v.Config[i+len(" auto-root="):], ";")...)
					x.A.MaxSC = 0
					cfg = &x
				}
			}
		}
	}
	if cfg == nil {
		panic(vsched.CheckError{Msg: "replay: unknown configuration " + v.Config})
	}
	var got []vsched.Violation
	s := vsched.Run(vsched.Opts{Prefix: v.Choices, Trace: true}, func(s *vsched.Sched) {
		w := newPoolWorld(s, *cfg)
		got = append(got, w.Take()...)
		for _, op := range v.History {
			if w.Poisoned() {
				break
			}
			w.Do(op)
			s.Events = append(s.Events, fmt.Sprintf("== after %s: %s", op, w.refString()))
			got = append(got, w.Take()...)
		}
	})
	rr := &vsched.ReplayResult{Trace: s.Events}
	for _, g := range got {
		if g.Sig == v.Sig {
			rr.Reproduced = true
			rr.Msg = g.Msg
		}
	}
	c.SetReplay(rr)
}

// autoRoots: non-initial roots chosen by the machine instead of by hand. Phase 1
// explores a configuration with a reduced alphabet (latest picker, one context,
// one key, few outcomes) deeper than the main exploration and keeps the
// shortest history reaching each distinct abstract feature of the pool
// (poolWorld.Feature). Phase 2 runs the property's full alphabet and monitors
// from the deepest of those states, to a small depth. Every phase is an
// exhaustive BFS within its own bound; the roots used are listed in the
// evidence.
func autoRoots(c *vsched.RunCtx, prop string, cfgs []poolCfg, depth int) {
	wanted := map[string][]string{
		"C01": {"C01 pool=2 fallback=false refresh=true rr=false", "C01 pool=2 fallback=true refresh=true rr=false"},
		"C02": {"C02 pool=2 wm=100 refresh"},
		"C04": {"C04 pool=2"},
		"C07": {"C07 calls=1 ms=1 pool=2"},
		"C08": {"C08 pool=2 wm=100 refresh=true", "C08 pool=3 wm=100 refresh=true"},
		"C20": {"C20 min=1 max=2 wm=1"},
	}[prop]
	var bases []int
	for _, n := range wanted {
		for i := range cfgs {
			if cfgs[i].Name == n {
				bases = append(bases, i)
			}
		}
	}
	if len(bases) == 0 {
		return
	}
	d1, maxRoots, d2, cap1 := depth+2, 24, 3, 20000
	if c.Thorough() {
		d1, maxRoots, d2, cap1 = depth+3, 120, 4, 250000
	}
	type job struct {
		cfg  poolCfg
		base string
	}
	var jobs []job
	for _, bi := range bases {
		if bi >= len(cfgs) {
			continue
		}
		base := cfgs[bi]
		red := base
		red.Name = base.Name + " [root search]"
		a := base.A
		a.Gens = []string{"L"}
		if len(a.Ctx) > 1 {
			a.Ctx = a.Ctx[:1]
		}
		if len(a.Keys) > 1 {
			a.Keys = a.Keys[:1]
		}
		var done []string
		for _, o := range a.Done {
			if o == "ok" || o == "ok:k1" || o == "cde" {
				done = append(done, o)
			}
		}
		a.Done = done
		a.Shutdown, a.Unknown, a.Fail, a.ResErr = false, false, false, false
		if a.States == "full" {
			a.States = "basic"
		}
		if len(a.Adv) > 1 {
			a.Adv = a.Adv[len(a.Adv)-1:]
		}
		a.MaxSC = 0
		red.A = a
		// phase 1 is identical in every worker (deterministic); phase 2 roots are dealt round-robin
		res := vsched.BFS(vsched.BFSOpts{Name: "pool-rootsearch", Config: red.Name, Depth: d1, DevPerOp: 0, MaxStates: cap1, Deadline: c.Deadline,
			Feature: func(w vsched.World) string { return w.(*poolWorld).Feature() }},
			func(s *vsched.Sched) vsched.World { return newPoolWorld(s, red) })
		if c.Shard == 0 {
			res.Stats.Samples = nil
			if res.Stats.Capped {
				// the root search is a generator, not a verdict: its cap does not make the phase-2 explorations inexhaustive
				res.Stats.Capped, res.Stats.CapReason = false, fmt.Sprintf("root search stopped at %d states by design", cap1)
			}
			c.Add(res)
		}
		// deepest histories first, shortest-name tie break for determinism
		type root struct {
			f   string
			ops []string
		}
		var roots []root
		for f, ops := range res.FeatureRoots {
			if len(ops) >= depth-1 {
				roots = append(roots, root{f, ops})
			}
		}
		sort.Slice(roots, func(i, j int) bool {
			if len(roots[i].ops) != len(roots[j].ops) {
				return len(roots[i].ops) > len(roots[j].ops)
			}
			return roots[i].f < roots[j].f
		})
		if len(roots) > maxRoots {
			roots = roots[:maxRoots]
		}
		for _, r := range roots {
			cfg := base
			cfg.Name = base.Name + " auto-root=" + strings.Join(r.ops, ";")
			cfg.Setup = append(append([]string{}, base.Setup...), r.ops...)
			cfg.A.MaxSC = 0
			jobs = append(jobs, job{cfg, base.Name})
		}
	}
	agg := map[string]*vsched.ExploreResult{}
	for ji, j := range jobs {
		if ji%c.NShards != c.Shard {
			continue
		}
		cfg := j.cfg
		res := vsched.BFS(vsched.BFSOpts{Name: "pool-autoroot", Config: cfg.Name, Depth: d2, DevPerOp: 1, Deadline: c.Deadline},
			func(s *vsched.Sched) vsched.World { return newPoolWorld(s, cfg) })
		a := agg[j.base]
		if a == nil {
			a = &vsched.ExploreResult{Violations: map[string]*vsched.Violation{}}
			a.Stats = res.Stats
			a.Stats.Config = j.base + " (machine-chosen roots, depth " + fmt.Sprint(d2) + " from each)"
			a.Stats.Samples = []interface{}{map[string]interface{}{"root": cfg.Setup}}
			agg[j.base] = a
		} else {
			a.Stats.Execs += res.Stats.Execs
			a.Stats.States += res.Stats.States
			a.Stats.Transitions += res.Stats.Transitions
			a.Stats.Nontrivial += res.Stats.Nontrivial
			a.Stats.Points += res.Stats.Points
			a.Stats.Steps += res.Stats.Steps
			a.Stats.Pruned += res.Stats.Pruned
			a.Stats.Capped = a.Stats.Capped || res.Stats.Capped
			if len(a.Stats.Samples) < 3 {
				a.Stats.Samples = append(a.Stats.Samples, map[string]interface{}{"root": cfg.Setup})
			}
		}
		for k, v := range res.Violations {
			if _, ok := a.Violations[k]; !ok {
				a.Violations[k] = v
			}
		}
	}
	var names []string
	for n := range agg {
		names = append(names, n)
	}
	sort.Strings(names)
	for _, n := range names {
		c.Add(agg[n])
	}
}

// refreshedK: pool of one whose connection has been refreshed k times in a row
// without a response (window unresponsive_detection_ms*2^k); the alphabet then
// probes one more deadline completion just below / above that window.
func refreshedK(prop string, k int, base alphabet) poolCfg {
	c := poolCfg{Name: fmt.Sprintf("%s root=refreshed-%d-times", prop, k), Min: 1, Max: 1, WM: 100, RefCalls: 1, RefMs: 1}
	c.Setup = readyPool(1)
	for i := 0; i < k; i++ {
		c.Setup = append(c.Setup, "pick(plain,,L,g,d1)", fmt.Sprintf("adv(%d)", (1<<uint(i))+1), "done(0,cde)",
			fmt.Sprintf("state(%d,CONNECTING)", i+1), fmt.Sprintf("state(%d,READY)", i+1))
	}
	w := 1 << uint(k)
	c.A = alphabet{States: "basic", Cmds: []string{"plain"}, Gens: []string{"L"}, Ctx: []string{"g,d1"},
		Done: []string{"ok", "cde"}, Adv: []int{w - 1, 2}, MaxOpen: 2, MaxSC: k + 3}
	c.Depth = 4
	return c
}
