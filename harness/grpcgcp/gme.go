//go:build verif && go1.18

package grpcgcp

import (
	"context"
	"fmt"
	"reflect"
	"sort"
	"strings"
	"time"

	"google.golang.org/grpc"
	"google.golang.org/grpc/connectivity"
	"google.golang.org/grpc/credentials/insecure"
	"google.golang.org/grpc/status"

	pb "github.com/GoogleCloudPlatform/grpc-gcp-go/grpcgcp/grpc_gcp"
	"github.com/GoogleCloudPlatform/grpc-gcp-go/grpcgcp/multiendpoint"

	"verif/engine/vctx"
	"verif/engine/vgrpc"
	"verif/engine/vsched"
)

func vctxWithCancel() (context.Context, context.CancelFunc) {
	return vctx.WithCancel(context.Background())
}

func init() {
	extraChecks["C15"] = func(c *vsched.RunCtx) { checkGME(c, "C15") }
	extraChecks["C16"] = func(c *vsched.RunCtx) { checkGME(c, "C16") }
}

// ---- option sets ----

type gmeOpt struct {
	Name    string
	Default string
	MEs     map[string][]string
	Invalid string // "", "default-missing", "empty-new", "empty-existing"; "duplicate": acceptance is not specified, the consequences are
}

func (o gmeOpt) build(r, d time.Duration, dial func(context.Context, string, ...grpc.DialOption) (*vgrpc.ClientConn, error)) *GCPMultiEndpointOptions {
	m := map[string]*multiendpoint.MultiEndpointOptions{}
	for n, l := range o.MEs {
		m[n] = &multiendpoint.MultiEndpointOptions{Endpoints: append([]string{}, l...), RecoveryTimeout: r, SwitchingDelay: d}
	}
	return &GCPMultiEndpointOptions{GRPCgcpConfig: &pb.ApiConfig{ChannelPool: &pb.ChannelPoolConfig{MaxSize: 3}}, MultiEndpoints: m, Default: o.Default, DialFunc: dial}
}

func gmeMenu(thorough bool) []gmeOpt {
	L := func(s string) []string {
		if s == "" {
			return []string{}
		}
		var l []string
		for _, c := range strings.Split(s, ",") {
			if strings.HasPrefix(c, "s") {
				l = append(l, " e"+c[1:]) // an endpoint name with a leading blank: names are opaque strings
				continue
			}
			l = append(l, "e"+c)
		}
		return l
	}
	mk := func(def string, kv ...string) gmeOpt {
		o := gmeOpt{Default: def, MEs: map[string][]string{}}
		var parts []string
		for i := 0; i < len(kv); i += 2 {
			o.MEs[kv[i]] = L(kv[i+1])
			parts = append(parts, kv[i]+":["+kv[i+1]+"]")
		}
		o.Name = "def=" + def + " " + strings.Join(parts, " ")
		return o
	}
	menu := []gmeOpt{
		mk("d", "d", "1"),
		mk("d", "d", "1,2"),
		mk("d", "d", "2,1"),
		mk("d", "d", "1,2", "r", "2,3"),
		mk("d", "d", "1", "r", "3"),
		mk("r", "r", "2,1"),
		mk("r", "d", "1,2", "r", "3,1"),
		mk("d", "d", "3"),
		mk("d", "d", "1", "", "2"), // a MultiEndpoint whose name is the empty string: a context naming none still means the default
	}
	inv := func(kind string, o gmeOpt) gmeOpt { o.Invalid = kind; o.Name += " INVALID:" + kind; return o }
	menu = append(menu,
		inv("default-missing", mk("x", "d", "1")),
		inv("empty-new", mk("d", "d", "1", "r", "")),
		inv("empty-new", mk("d", "d", "1,2", "n", "")),
		inv("empty-existing", mk("d", "d", "")),
		inv("empty-existing", mk("d", "d", "1,3", "r", "")),
		inv("empty-existing", mk("r", "d", "", "r", "2")),
	)
	if thorough {
		menu = append(menu,
			mk("d", "d", "1,2,3"),
			mk("d", "d", "3,2", "r", "1,2"),
			mk("r", "d", "2", "r", "2"),
			inv("default-missing", mk("", "d", "1")),
			inv("empty-new", mk("d", "d", "2,3", "r", "1", "n", "")),
		)
	}
	// a list that names an endpoint twice: the statement does not say whether it is accepted; whatever
	// the answer, a rejection must leave routing unchanged and an acceptance must behave like the
	// list without the repetition (no later RPC may panic or reach a closed pool)
	// endpoint names are opaque: one that differs from another only by a blank is another endpoint
	menu = append(menu, mk("d", "d", "s2,1"))
	menu = append(menu,
		inv("duplicate", mk("d", "d", "3,3")),
		inv("duplicate", mk("d", "d", "1,2", "n", "2,2")),
	)
	return menu
}

func dedupOpt(o gmeOpt) gmeOpt {
	n := gmeOpt{Name: o.Name, Default: o.Default, MEs: map[string][]string{}}
	for k, l := range o.MEs {
		var out []string
		for _, e := range l {
			if !contains(out, e) {
				out = append(out, e)
			}
		}
		n.MEs[k] = out
	}
	return n
}

// ---- reference ----

type refME struct {
	list  []string
	avail map[string]bool
	cur   string
}

func (m *refME) in(e string) bool {
	for _, x := range m.list {
		if x == e {
			return true
		}
	}
	return false
}

func (m *refME) recompute() {
	for _, e := range m.list {
		if m.avail[e] {
			m.cur = e
			return
		}
	}
	if !m.in(m.cur) {
		m.cur = m.list[0]
	}
}

type gmeCfg struct {
	Setup    []string // non-initial root
	Name     string
	DialFail bool
	Init     int // index into the menu
	R, D     time.Duration
	Prop     string
	Closed   bool
}

type gmeWorld struct {
	s    *vsched.Sched
	cfg  gmeCfg
	menu []gmeOpt
	gme  *GCPMultiEndpoint

	mes      map[string]*refME
	def      string
	open     map[string]*vgrpc.ClientConn // reference: pools that must be open
	everOpen []*vgrpc.ClientConn
	dials    map[string]int
	dialFail bool
	closed   bool
	lastOpts *GCPMultiEndpointOptions // the object handed to the last accepted (re)configuration

	viol     []vsched.Violation
	poisoned bool
	nontriv  bool
	lastOp   string
}

var gmeEndpoints = []string{"e1", "e2", "e3"}

func (w *gmeWorld) violate(prop, rule, cause, msg string) {
	w.viol = append(w.viol, vsched.Violation{Property: prop, Rule: rule, Sig: rule + " " + cause, Msg: w.lastOp + ": " + msg})
}

func (w *gmeWorld) dial(ctx context.Context, target string, opts ...grpc.DialOption) (*vgrpc.ClientConn, error) {
	yield("dial")
	if w.dialFail && target == "e3" {
		return nil, fmt.Errorf("fake: dial %s failed", target)
	}
	cc := vgrpc.NewFake(target, opts)
	w.dials[target]++
	w.everOpen = append(w.everOpen, cc)
	return cc, nil
}

func newGMEWorld(s *vsched.Sched, cfg gmeCfg, menu []gmeOpt) *gmeWorld {
	vgrpc.Reset()
	w := &gmeWorld{s: s, cfg: cfg, menu: menu, mes: map[string]*refME{}, open: map[string]*vgrpc.ClientConn{}, dials: map[string]int{}}
	w.lastOp = "construct(" + menu[cfg.Init].Name + ")"
	o := menu[cfg.Init]
	w.dialFail = cfg.DialFail
	var err error
	built := o.build(cfg.R, cfg.D, w.dial)
	w.lastOpts = built
	th := s.Go("construct", func() {
		w.gme, err = NewGCPMultiEndpoint(built)
	})
	s.WaitQuiescent()
	if !w.classify(th, "construct") {
		return w
	}
	if o.Invalid == "duplicate" && !cfg.DialFail && err == nil {
		o = dedupOpt(o) // accepted: behaves like the list without the repetition
	}
	if o.Invalid != "" || cfg.DialFail {
		kind := o.Invalid
		if kind == "" {
			kind = "dial-failure"
		}
		if err == nil {
			w.violate("C16", "C16.A1", "constructor accepted invalid options ("+kind+")", "NewGCPMultiEndpoint returned nil error")
		}
		w.checkAllReleased("C16.A4", "after failed construction")
		w.poisoned = true
		return w
	}
	if err != nil {
		w.violate("C16", "C16.A1", "constructor rejected valid options", err.Error())
		w.poisoned = true
		return w
	}
	w.applyRef(o)
	w.afterOp(true)
	for _, op := range cfg.Setup {
		if w.poisoned {
			break
		}
		w.Do(op)
	}
	return w
}

// applyRef: the reference effect of a successful (re)configuration.
func (w *gmeWorld) applyRef(o gmeOpt) {
	need := map[string]bool{}
	for _, l := range o.MEs {
		for _, e := range l {
			need[e] = true
		}
	}
	for e := range need {
		if _, ok := w.open[e]; !ok {
			// the newest fake dialed for e
			for i := len(w.everOpen) - 1; i >= 0; i-- {
				if w.everOpen[i].Target == e {
					w.open[e] = w.everOpen[i]
					break
				}
			}
		}
	}
	for e := range w.open {
		if !need[e] {
			delete(w.open, e)
		}
	}
	for n, l := range o.MEs {
		m, ok := w.mes[n]
		if !ok {
			m = &refME{avail: map[string]bool{}, cur: l[0]}
			w.mes[n] = m
		}
		m.list = append([]string{}, l...)
		for e := range m.avail {
			if !m.in(e) {
				delete(m.avail, e)
			}
		}
		m.recompute()
	}
	for n := range w.mes {
		if _, ok := o.MEs[n]; !ok {
			delete(w.mes, n)
		}
	}
	w.def = o.Default
	w.syncAvail()
}

// syncAvail: every multi-endpoint learns the READY-ness of every open pool.
func (w *gmeWorld) syncAvail() {
	for _, m := range w.mes {
		for _, e := range m.list {
			if cc, ok := w.open[e]; ok {
				m.avail[e] = cc.PeekState() == connectivity.Ready
			}
		}
		m.recompute()
	}
}

func (w *gmeWorld) classify(th *vsched.Thread, kind string) bool {
	switch {
	case th.PanicVal != nil:
		w.violate("C16", "C16.A2", fmt.Sprintf("panic in %s during %s", th.PanicSite, kind), fmt.Sprintf("panic: %v\n%s", th.PanicVal, trimStack(th.PanicStack)))
		w.poisoned = true
	case th.Livelock:
		w.violate("C16", "C16.A2", "no termination during "+kind, "step budget exceeded in "+th.LiveSite)
		w.poisoned = true
	case !th.Done():
		w.violate("C16", "C16.A2", "deadlock during "+kind, "blocked at "+th.Desc)
		w.poisoned = true
	case th.Held != 0:
		w.violate("C16", "C16.A2", "lock left held after "+kind, "")
		w.poisoned = true
	}
	return !w.poisoned
}

func (w *gmeWorld) Ops() []string {
	if w.closed {
		return []string{"rpc()"}
	}
	var ops []string
	for _, e := range gmeEndpoints {
		cc, ok := w.open[e]
		if !ok {
			continue
		}
		for _, st := range []connectivity.State{connectivity.Ready, connectivity.TransientFailure, connectivity.Idle} {
			if cc.PeekState() != st {
				ops = append(ops, fmt.Sprintf("poolState(%s,%v)", e, st))
			}
		}
	}
	for i := range w.menu {
		ops = append(ops, fmt.Sprintf("update(%d)", i))
	}
	for i, o := range w.menu {
		if o.Invalid == "" {
			// the caller edits the options object it submitted before and submits it again
			ops = append(ops, fmt.Sprintf("reupdate(%d)", i))
		}
	}
	if w.cfg.D > 0 {
		ops = append(ops, fmt.Sprintf("adv(%d)", w.cfg.D/time.Millisecond))
	}
	if w.dialFail {
		ops = append(ops, "dialFail(off)")
	} else {
		ops = append(ops, "dialFail(on)")
	}
	ops = append(ops, "close()")
	return ops
}

func (w *gmeWorld) Do(op string) {
	w.lastOp = op
	name, args := opParts(op)
	switch name {
	case "poolState":
		cc := w.open[args[0]]
		if cc == nil {
			panic(vsched.CheckError{Msg: "poolState on a pool that is not open"})
		}
		cc.SetState(stateNames[args[1]])
		w.s.WaitQuiescent()
		for _, m := range w.mes {
			if m.in(args[0]) {
				m.avail[args[0]] = stateNames[args[1]] == connectivity.Ready
				m.recompute()
			}
		}
		w.nontriv = true
		w.afterOp(false)
	case "update":
		var i int
		fmt.Sscanf(args[0], "%d", &i)
		w.doUpdate(w.menu[i], nil)
	case "reupdate":
		var i int
		fmt.Sscanf(args[0], "%d", &i)
		o := w.menu[i]
		opts := w.lastOpts
		for n := range opts.MultiEndpoints {
			if _, ok := o.MEs[n]; !ok {
				delete(opts.MultiEndpoints, n)
			}
		}
		for n, l := range o.MEs {
			if meo, ok := opts.MultiEndpoints[n]; ok {
				meo.Endpoints = append([]string{}, l...)
			} else {
				opts.MultiEndpoints[n] = &multiendpoint.MultiEndpointOptions{Endpoints: append([]string{}, l...), RecoveryTimeout: w.cfg.R, SwitchingDelay: w.cfg.D}
			}
		}
		opts.Default = o.Default
		w.doUpdate(o, opts)
	case "dialFail":
		w.dialFail = args[0] == "on"
	case "adv":
		var n int
		fmt.Sscanf(args[0], "%d", &n)
		w.s.AdvanceBy(time.Duration(n)*time.Millisecond + 10*time.Microsecond)
		w.s.WaitQuiescent()
		w.nontriv = true
		w.afterOp(false)
	case "close":
		var err error
		th := w.s.Go("close", func() { err = w.gme.Close() })
		w.s.WaitQuiescent()
		if !w.classify(th, "close") {
			return
		}
		_ = err
		w.closed = true
		w.checkAllReleased("C16.A3", "after Close")
	case "rpc":
		// after Close: calls must not panic
		th := w.s.Go("rpc", func() {
			w.gme.Invoke(context.Background(), "/svc/m", nil, nil)
		})
		w.s.WaitQuiescent()
		w.classify(th, "rpc after Close")
	default:
		panic(vsched.CheckError{Msg: "unknown op " + op})
	}
}

func (w *gmeWorld) doUpdate(o gmeOpt, reuse *GCPMultiEndpointOptions) {
	before := w.routing()
	dialsBefore := map[string]int{}
	for k, v := range w.dials {
		dialsBefore[k] = v
	}
	var err error
	var early map[string]string
	submitted := reuse
	if submitted == nil {
		submitted = o.build(w.cfg.R, w.cfg.D, w.dial)
	}
	th := w.s.Go("update", func() {
		err = w.gme.UpdateMultiEndpoints(submitted)
		if err == nil && o.Invalid == "" {
			// G2: before any monitor thread runs, routing already reflects the
			// connectivity of the kept pools (this thread keeps running: no
			// preemption in history mode)
			early = w.probeAll()
		}
	})
	w.s.WaitQuiescent()
	if !w.classify(th, "update") {
		return
	}
	mentionsE3 := false
	for _, l := range o.MEs {
		for _, e := range l {
			if e == "e3" {
				mentionsE3 = true
			}
		}
	}
	_, e3open := w.open["e3"]
	expectDialErr := w.dialFail && mentionsE3 && !e3open
	if o.Invalid == "duplicate" && !expectDialErr && err == nil {
		o = dedupOpt(o) // accepted: behaves like the list without the repetition
	}
	if o.Invalid != "" || expectDialErr {
		kind := o.Invalid
		if kind == "" {
			kind = "dial-failure"
		}
		if err == nil {
			// (kind "duplicate" never gets here with a nil error: it was turned into its valid equivalent above)
			w.violate("C16", "C16.A1", "update accepted invalid options ("+kind+")", "UpdateMultiEndpoints returned nil error")
			w.poisoned = true // the state after a wrongly accepted update is not defined
			return
		}
		// A2: routing unchanged
		after := w.routing()
		if d := diffRouting(before, after); d != "" {
			w.violate("C16", "C16.A2", "routing changed by a rejected update ("+kind+")", d)
		}
		w.nontriv = true
		w.afterOp(false)
		return
	}
	if err != nil {
		w.violate("C16", "C16.A1", "update rejected valid options", err.Error())
		w.poisoned = true
		return
	}
	oldOpen := map[string]*vgrpc.ClientConn{}
	for k, v := range w.open {
		oldOpen[k] = v
	}
	w.lastOpts = submitted
	w.applyRef(o)
	w.nontriv = true
	// G2
	for e, cc := range oldOpen {
		if _, still := w.open[e]; still {
			if w.dials[e] != dialsBefore[e] {
				w.violate("C15", "C15.G2", "kept pool was re-dialed", e)
			}
			if w.open[e] != cc {
				w.violate("C15", "C15.G2", "kept pool replaced", e)
			}
		} else if cc.CloseCount != 1 {
			w.violate("C15", "C15.G2", "dropped pool not closed exactly once", fmt.Sprintf("%s closed %d times", e, cc.CloseCount))
		}
	}
	if early != nil && w.cfg.D == 0 {
		exp := w.expectedRouting()
		if d := diffRouting(exp, early); d != "" {
			w.violate("C15", "C15.G2", "routing right after the update does not reflect the pools' connectivity", d)
		}
	}
	w.afterOp(true)
}

// probeAll sends one unary call and one stream per context and reports the
// target of the pool that received each.
func (w *gmeWorld) probeAll() map[string]string {
	res := map[string]string{}
	for _, name := range []string{"", "d", "r", "x"} {
		ctx := context.Background()
		if name != "" {
			ctx = NewMEContext(ctx, name)
		}
		for _, stream := range []bool{false, true} {
			k := fmt.Sprintf("ctx=%q stream=%v", name, stream)
			n := map[*vgrpc.ClientConn]int{}
			for _, cc := range vgrpc.Dialed {
				n[cc] = len(cc.Calls)
			}
			if stream {
				w.gme.NewStream(ctx, &grpc.StreamDesc{}, "/svc/probe")
			} else {
				w.gme.Invoke(ctx, "/svc/probe", nil, nil)
			}
			for _, cc := range vgrpc.Dialed {
				if len(cc.Calls) > n[cc] {
					c := cc.Calls[len(cc.Calls)-1]
					res[k] = cc.Target
					if c.Closed {
						res[k] = cc.Target + "(CLOSED)"
					}
				}
			}
		}
	}
	return res
}

func (w *gmeWorld) routing() map[string]string {
	var res map[string]string
	th := w.s.Go("probe", func() { res = w.probeAll() })
	w.s.WaitQuiescent()
	if !w.classify(th, "rpc") {
		return nil
	}
	return res
}

func (w *gmeWorld) expectedRouting() map[string]string {
	res := map[string]string{}
	for _, name := range []string{"", "d", "r", "x"} {
		m, ok := w.mes[name]
		if !ok || name == "" {
			m = w.mes[w.def]
		}
		for _, stream := range []bool{false, true} {
			res[fmt.Sprintf("ctx=%q stream=%v", name, stream)] = m.cur
		}
	}
	return res
}

func diffRouting(exp, got map[string]string) string {
	var d []string
	for k, e := range exp {
		if got[k] != e {
			d = append(d, fmt.Sprintf("%s: went to %q, expected %q", k, got[k], e))
		}
	}
	sort.Strings(d)
	return strings.Join(d, "; ")
}

func (w *gmeWorld) afterOp(updated bool) {
	if w.poisoned || w.closed {
		return
	}
	got := w.routing()
	if w.poisoned {
		return
	}
	if w.cfg.D > 0 {
		// inner multi-endpoints with a switching delay: the exact current endpoint
		// is C13/C14's business; here every call must still reach an open pool of
		// an endpoint that belongs to the selected multi-endpoint
		for _, name := range []string{"", "d", "r", "x"} {
			m, ok := w.mes[name]
			if !ok || name == "" {
				m = w.mes[w.def]
			}
			for _, stream := range []bool{false, true} {
				k := fmt.Sprintf("ctx=%q stream=%v", name, stream)
				tgt := got[k]
				if strings.Contains(tgt, "CLOSED") {
					w.violate("C16", "C16.A2", "call routed to a closed pool", k+" -> "+tgt)
				} else if !m.in(tgt) {
					w.violate("C15", "C15.G1", "call routed to an endpoint outside the selected MultiEndpoint", fmt.Sprintf("%s -> %q, list %v", k, tgt, m.list))
				}
			}
		}
		return
	}
	if d := diffRouting(w.expectedRouting(), got); d != "" {
		rule := "C15.G1"
		if strings.HasPrefix(w.lastOp, "poolState") {
			rule = "C15.G3"
		}
		cause := "call not routed through the current endpoint's pool"
		if strings.Contains(d, "CLOSED") {
			cause = "call routed to a closed pool"
			w.violate("C16", "C16.A2", cause, d)
		}
		w.violate("C15", rule, cause, d)
	}
	// open pools = reference set; others closed exactly once
	for _, cc := range w.everOpen {
		ref, isOpen := w.open[cc.Target]
		if isOpen && ref == cc {
			if cc.IsClosed() {
				w.violate("C15", "C15.G2", "pool of a configured endpoint is closed", cc.Target)
			}
		}
	}
	if updated {
		n := 0
		for _, cc := range w.everOpen {
			if !cc.IsClosed() {
				n++
			}
		}
		if n != len(w.open) {
			w.violate("C15", "C15.G2", "open pools differ from the distinct endpoints configured", fmt.Sprintf("%d pools open, %d endpoints configured", n, len(w.open)))
		}
		// monitors: one live thread per open pool
		if alive := len(w.s.Alive()); alive != len(w.open) {
			w.violate("C15", "C15.G2", "monitors differ from open pools", fmt.Sprintf("%d monitor threads alive, %d pools open", alive, len(w.open)))
		}
	}
}

func (w *gmeWorld) checkAllReleased(rule, when string) {
	for _, cc := range w.everOpen {
		if !cc.IsClosed() {
			w.violate("C16", rule, "pool left open "+when, cc.Target)
		}
	}
	if alive := w.s.Alive(); len(alive) != 0 {
		w.violate("C16", rule, "goroutine left running "+when, fmt.Sprintf("%d threads started by the object still alive (first: %s at %s)", len(alive), alive[0].Name, alive[0].Desc))
	}
}

func (w *gmeWorld) Key() string {
	d := &vsched.Dumper{Now: w.s.Clock(),
		InScope: func(t reflect.Type) bool {
			return strings.HasSuffix(t.PkgPath(), "/grpcgcp") || strings.HasSuffix(t.PkgPath(), "/multiendpoint")
		},
		SkipField: func(typ, f string) bool {
			return f == "log" || f == "lastChange" || f == "futureChange" || f == "opts" || f == "gcpConfig" || f == "dialFunc" || f == "gme" || f == "cancel"
		}}
	var b strings.Builder
	if w.gme != nil {
		b.WriteString(d.Dump(w.gme))
	}
	b.WriteString("|pools=")
	for _, e := range gmeEndpoints {
		if cc, ok := w.open[e]; ok {
			fmt.Fprintf(&b, "%s:%v;", e, cc.PeekState())
		}
	}
	open := 0
	for _, cc := range w.everOpen {
		if !cc.IsClosed() {
			open++
		}
	}
	fmt.Fprintf(&b, "|open=%d|alive=%d|fail=%v|closed=%v|def=%s|ref=", open, len(w.s.Alive()), w.dialFail, w.closed, w.def)
	var names []string
	for n := range w.mes {
		names = append(names, n)
	}
	sort.Strings(names)
	for _, n := range names {
		m := w.mes[n]
		fmt.Fprintf(&b, "%s:%v cur=%s av=", n, m.list, m.cur)
		for _, e := range m.list {
			fmt.Fprintf(&b, "%v", m.avail[e])
		}
		b.WriteString(";")
	}
	return b.String()
}

func (w *gmeWorld) Poisoned() bool { return w.poisoned }
func (w *gmeWorld) Take() []vsched.Violation {
	v := w.viol
	w.viol = nil
	return v
}
func (w *gmeWorld) Nontrivial() bool { return w.nontriv }

func checkGME(c *vsched.RunCtx, prop string) {
	menu := gmeMenu(c.Thorough())
	depth := 4
	if c.Thorough() {
		depth = 5
	}
	var cfgs []gmeCfg
	for i, o := range menu {
		cfgs = append(cfgs, gmeCfg{Name: "init=" + o.Name, Init: i, Prop: prop})
	}
	// dial failure during construction (every option set that mentions e3)
	for i, o := range menu {
		for _, l := range o.MEs {
			if o.Invalid == "" && contains(l, "e3") {
				cfgs = append(cfgs, gmeCfg{Name: "dialfail init=" + o.Name, Init: i, Prop: prop, DialFail: true})
				break
			}
		}
	}
	for _, i := range []int{3, 1} {
		cfgs = append(cfgs, gmeCfg{Name: "delay=5ms init=" + menu[i].Name, Init: i, Prop: prop, D: 5 * time.Millisecond})
		// root: the second endpoint is current and a delayed switch to the first one is pending
		cfgs = append(cfgs, gmeCfg{Name: "delay=5ms root=switch-pending init=" + menu[i].Name, Init: i, Prop: prop, D: 5 * time.Millisecond,
			Setup: []string{"poolState(e2,READY)", "poolState(e1,READY)"}})
	}
	if c.Replay == nil || c.Replay.Harness == "sched:gme-update" {
		runGMEDrivers(c, false)
		if c.Replay != nil {
			return
		}
	}
	if c.Replay != nil {
		v := c.Replay
		for _, cfg := range cfgs {
			if cfg.Name != v.Config {
				continue
			}
			var got []vsched.Violation
			s := vsched.Run(vsched.Opts{Prefix: v.Choices, Trace: true}, func(s *vsched.Sched) {
				w := newGMEWorld(s, cfg, menu)
				got = append(got, w.Take()...)
				for _, op := range v.History {
					if w.Poisoned() {
						break
					}
					w.Do(op)
					got = append(got, w.Take()...)
				}
			})
			rr := &vsched.ReplayResult{Trace: s.Events}
			for _, g := range got {
				if g.Sig == v.Sig {
					rr.Reproduced, rr.Msg = true, g.Msg
				}
			}
			c.SetReplay(rr)
		}
		return
	}
	if c.Shard == 0 {
		verdict, diffs := stubConformance()
		c.Extra("stub_conformance", verdict)
		if len(diffs) > 0 {
			c.Extra("stub_conformance_diffs", diffs)
			// a fake that disagrees with gRPC invalidates the harness, not the library
			panic(vsched.CheckError{Msg: "vgrpc fake pool disagrees with a real grpc.ClientConn: " + strings.Join(diffs, "; ")})
		}
	}
	idx, sub, nsub := c.Split(len(cfgs))
	for _, i := range idx {
		cfg := cfgs[i]
		depth := depth
		if cfg.D > 0 {
			depth-- // the delay configurations have a larger alphabet (clock advances)
		}
		res := vsched.BFS(vsched.BFSOpts{Name: "gme", Config: cfg.Name, Depth: depth, DevPerOp: 1, Deadline: c.Deadline, Shard: sub, NShards: nsub},
			func(s *vsched.Sched) vsched.World { return newGMEWorld(s, cfg, menu) })
		c.Add(res)
	}
	c.Assume("grpc.ClientConn/Dial replaced by a fake pool (GetState, WaitForStateChange, Close, Invoke, NewStream) in gcp_multiendpoint.go only; inner multi-endpoints are the real ones with recovery timeout 0 and switching delay 0",
		"endpoints {e1,e2,e3}, multi-endpoint names {d,r,n}; dial failure is injected for e3; 'bounded time' = by quiescence of the monitor threads")
}

// ---- concurrency driver: RPCs || UpdateMultiEndpoints || pool state changes || monitors ----

func gmeDriverBody(variant int) func(s *vsched.Sched) *vsched.ExecOutcome {
	return func(s *vsched.Sched) *vsched.ExecOutcome {
		menu := gmeMenu(false)
		s.Frozen = true
		init := 3 // d:[1,2] r:[2,3]
		if variant == 5 {
			init = 1 // d:[1,2]: both concurrent updates of variant 5 have to dial e3
		}
		w := newGMEWorld(s, gmeCfg{Name: "gme-update", Init: init, Prop: "C10"}, menu)
		if !w.poisoned {
			w.Do("poolState(e1,READY)")
		}
		s.Frozen = false
		var viol []vsched.Violation
		add := func(prop, rule, cause, msg string) {
			viol = append(viol, vsched.Violation{Property: prop, Rule: rule, Sig: rule + " [driver gme-update] " + cause, Msg: msg})
		}
		if w.poisoned {
			return &vsched.ExecOutcome{Outcome: "setup-failed", Violations: w.Take()}
		}
		// updates applied by the updater thread; variant 3: Close instead; variant 4: the named caller
		// uses a name no MultiEndpoint has (routed through the default one)
		// variant 5: two reconfigurations overlap (each adds the pool of e3), then Close
		// variant 6: no reconfiguration; the pool of the preferred endpoint goes down and comes back at
		// once: when everything has settled routing must be back on it (a monitor must not lose a flip)
		// variant 7: a unary call on the default MultiEndpoint stays in flight for the whole run (a slow
		// server): a reconfiguration, other calls and the monitors must not wait for it
		targets := [][]int{{6}, {0}, {4, 1}, {}, {6}, {3}, {3}, {6}}[variant]
		if variant == 7 {
			if cc := w.open["e1"]; cc != nil {
				cc.HoldCalls = true
			}
		}
		named := "r"
		if variant == 4 {
			named = "no-such-multiendpoint"
		}
		updDone := false
		var lateClosed []string
		rpc := func(name string) func() {
			return func() {
				ctx := context.Background()
				if name != "" {
					ctx = NewMEContext(ctx, name)
				}
				for i := 0; i < 2; i++ {
					after := updDone
					n := map[*vgrpc.ClientConn]int{}
					for _, cc := range vgrpc.Dialed {
						n[cc] = len(cc.Calls)
					}
					w.gme.Invoke(ctx, "/svc/m", nil, nil)
					if after {
						for _, cc := range vgrpc.Dialed {
							if len(cc.Calls) > n[cc] && cc.Calls[len(cc.Calls)-1].Closed {
								lateClosed = append(lateClosed, cc.Target)
							}
						}
					}
				}
			}
		}
		if variant == 6 {
			// only the environment and the pools' monitors run: small enough for two preemptions
			rpc = func(string) func() { return func() {} }
		}
		ths := []*vsched.Thread{
			s.Go("rpcDefault", rpc("")),
			s.Go("rpcNamed", rpc(named)),
			s.Go("updater", func() {
				for _, t := range targets {
					w.gme.UpdateMultiEndpoints(menu[t].build(0, 0, w.dial))
				}
				if variant == 6 {
					return
				}
				if len(targets) == 0 {
					w.gme.Close()
					return // RPCs after Close legitimately reach closed pools
				}
				if variant != 5 { // with a second updater still running, pools may legitimately close under an RPC
					updDone = true
				}
			}),
			s.Go("env", func() {
				if cc := w.open["e2"]; cc != nil {
					cc.SetState(connectivity.Ready)
				}
				if cc := w.open["e1"]; cc != nil {
					cc.SetState(connectivity.TransientFailure)
					if variant == 6 {
						cc.SetState(connectivity.Ready)
					}
				}
			}),
		}
		names := []string{"rpcDefault", "rpcNamed", "updater", "env"}
		if variant == 7 {
			names[0] = "rpcInFlight" // parked in the pool of e1 on purpose
		}
		if variant == 5 {
			ths = append(ths, s.Go("updater2", func() { w.gme.UpdateMultiEndpoints(menu[4].build(0, 0, w.dial)) }))
			names = append(names, "updater2")
		}
		s.WaitQuiescent()
		if variant == 6 {
			// everything has settled (monitors are parked): e1 is READY again, so the default
			// MultiEndpoint d:[e1,e2] must route through e1's pool
			n := map[*vgrpc.ClientConn]int{}
			for _, cc := range vgrpc.Dialed {
				n[cc] = len(cc.Calls)
			}
			ths = append(ths, s.Go("rpcSettled", func() { w.gme.Invoke(context.Background(), "/svc/m", nil, nil) }))
			names = append(names, "rpcSettled")
			s.WaitQuiescent()
			for _, cc := range vgrpc.Dialed {
				if len(cc.Calls) > n[cc] && cc.Target != "e1" && w.open["e1"] != nil && w.open["e1"].PeekState() == connectivity.Ready {
					add("C15", "C15.G3", "routing does not follow a pool that went down and came back", fmt.Sprintf("call routed to %s although the pool of e1 (first endpoint of the default MultiEndpoint) is READY and nothing is pending", cc.Target))
				}
			}
		}
		if variant == 5 {
			// a late RPC, then Close: nothing dialed by either update may stay open
			updDone = true
			ths = append(ths, s.Go("rpcLate", rpc("")))
			names = append(names, "rpcLate")
			s.WaitQuiescent()
			ths = append(ths, s.Go("closer", func() { w.gme.Close() }))
			names = append(names, "closer")
			s.WaitQuiescent()
			for _, cc := range vgrpc.Dialed {
				if !cc.IsClosed() {
					add("C16", "C16.A3", "Close left a pool open after overlapping reconfigurations", cc.Target)
					break
				}
			}
		}
		var out []string
		for i, th := range ths {
			switch {
			case th.PanicVal != nil:
				add("C16", "C16.A2", fmt.Sprintf("panic in %s (thread %s)", th.PanicSite, names[i]), fmt.Sprintf("%v\n%s", th.PanicVal, trimStack(th.PanicStack)))
				out = append(out, names[i]+":panic")
			case !th.Done() && variant == 7 && strings.HasPrefix(names[i], "rpc") && th.Desc == "unary call in flight":
				// routed to the pool whose server is slow: in flight, not stuck in the library
				out = append(out, names[i]+":in-flight")
			case !th.Done():
				add("C16", "C16.A2", "thread "+names[i]+" blocked forever", th.Desc)
				if strings.HasPrefix(names[i], "rpc") {
					add("C15", "C15.G1", "RPC "+names[i]+" overlapping a reconfiguration is never routed", th.Desc)
				}
				out = append(out, names[i]+":blocked")
			default:
				out = append(out, names[i]+":ok")
			}
		}
		for _, t := range lateClosed {
			add("C16", "C16.A2", "RPC started after the update returned reached a closed pool", t)
		}
		if variant == 7 {
			// the server finally answers
			for _, cc := range vgrpc.Dialed {
				cc.HoldCalls = false
			}
			s.WaitQuiescent()
		}
		// monitors of closed pools must have terminated
		open := 0
		for _, cc := range vgrpc.Dialed {
			if !cc.IsClosed() {
				open++
			}
		}
		if alive := len(s.Alive()); alive != open && len(viol) == 0 {
			add("C15", "C15.G2", "monitors differ from open pools after concurrent update", fmt.Sprintf("%d threads alive, %d pools open", alive, open))
		}
		o := strings.Join(out, ",")
		var calls []string
		for _, cc := range vgrpc.Dialed {
			calls = append(calls, fmt.Sprintf("%s:%d", cc.Target, len(cc.Calls)))
		}
		return &vsched.ExecOutcome{Outcome: o + "|" + strings.Join(calls, ","), StateKey: o + "|" + strings.Join(calls, ",") + fmt.Sprint(open), Nontrivial: true, Violations: viol}
	}
}

func runGMEDrivers(c *vsched.RunCtx, race bool) {
	// many threads (4 drivers + one monitor per pool) and long programs: the
	// preemption bound is kept at 1 in the quick tier
	pre, dev, delay := 1, 1, 3
	if c.Thorough() {
		pre, delay = 2, 4
	}
	for v := 0; v < 8; v++ {
		name := fmt.Sprintf("variant=%d", v)
		if c.Replay != nil {
			if c.Replay.Harness == "sched:gme-update" && c.Replay.Config == name {
				out, s := vsched.RunOnce(vsched.ExploreOpts{Race: race}, c.Replay.Choices, true, gmeDriverBody(v))
				rr := &vsched.ReplayResult{Trace: s.Events}
				for _, x := range out.Violations {
					if x.Sig == c.Replay.Sig {
						rr.Reproduced, rr.Msg = true, x.Msg
					}
				}
				for sig := range s.Races {
					if "race: "+sig == c.Replay.Sig {
						rr.Reproduced, rr.Msg = true, sig
					}
				}
				c.SetReplay(rr)
			}
			continue
		}
		vpre, vdelay := pre, delay
		if v == 6 {
			vpre, vdelay = pre+1, delay+1
		}
		res := vsched.Explore(vsched.ExploreOpts{Name: "sched:gme-update", Config: name, PreemptBound: vpre, DevBound: dev, DelayBound: vdelay, Race: race,
			Deadline: c.Deadline, Shard: c.Shard, NShards: c.NShards}, gmeDriverBody(v))
		c.Add(res)
	}
}

// ---- conformance of the fake pool with a real grpc.ClientConn ----
//
// The contract the library relies on (GetState / WaitForStateChange / Close /
// Invoke after Close) is exercised on a real ClientConn dialed to an
// unreachable passthrough target and on the fake; the observations must agree.
// Real gRPC goroutines run here (outside the scheduler); waits are event
// driven with a long guard; a guard expiry is reported as inconclusive.
func stubConformance() (string, []string) {
	var diffs []string
	obs := func(name string, real, fake interface{}) {
		if fmt.Sprint(real) != fmt.Sprint(fake) {
			diffs = append(diffs, fmt.Sprintf("%s: real=%v fake=%v", name, real, fake))
		}
	}
	rc, err := grpc.Dial("passthrough:///127.0.0.1:1", grpc.WithTransportCredentials(insecure.NewCredentials()))
	if err != nil {
		return "inconclusive: dial failed: " + err.Error(), nil
	}
	guard, cancelGuard := context.WithTimeout(context.Background(), 20*time.Second)
	defer cancelGuard()
	// 1. WaitForStateChange returns true once the state differs from the source state
	s0 := rc.GetState()
	changed := rc.WaitForStateChange(guard, s0)
	if guard.Err() != nil {
		rc.Close()
		return "inconclusive: real connection did not change state within the guard", nil
	}
	var fakeChanged bool
	vsched.Run(vsched.Opts{}, func(s *vsched.Sched) {
		vgrpc.Reset()
		fc := vgrpc.NewFake("t", nil)
		th := s.Go("waiter", func() { fakeChanged = fc.WaitForStateChange(context.Background(), connectivity.Idle) })
		s.WaitQuiescent()
		parkedBefore := !th.Done()
		fc.SetState(connectivity.Connecting)
		s.WaitQuiescent()
		obs("WaitForStateChange blocks while the state equals the source state", true, parkedBefore)
		obs("WaitForStateChange returns true after a change", changed, fakeChanged && th.Done())
		// 2. an expired context makes it return false
		ctx, cancel := context.WithCancel(context.Background())
		cancel()
		realFalse := rc.WaitForStateChange(ctx, rc.GetState())
		vctxC, vcancel := vctxWithCancel()
		vcancel()
		fakeFalse := fc.WaitForStateChange(vctxC, fc.GetState())
		obs("WaitForStateChange with an ended context", realFalse, fakeFalse)
		// 3. Close: state SHUTDOWN, second Close fails, RPCs fail, waiting on SHUTDOWN only ends with the context
		e1 := rc.Close()
		f1 := fc.Close()
		obs("first Close error", e1, f1)
		obs("state after Close", rc.GetState(), fc.GetState())
		e2 := rc.Close()
		f2 := fc.Close()
		obs("second Close error", e2, f2)
		re := rc.Invoke(context.Background(), "/svc/m", nil, nil)
		fe := fc.Invoke(context.Background(), "/svc/m", nil, nil)
		obs("Invoke after Close (status code)", status.Code(re), status.Code(fe))
		short, cancelShort := context.WithTimeout(context.Background(), 50*time.Millisecond)
		defer cancelShort()
		realWait := rc.WaitForStateChange(short, connectivity.Shutdown)
		vc2, vcancel2 := vctxWithCancel()
		var fakeWait bool
		th2 := s.Go("waiter2", func() { fakeWait = fc.WaitForStateChange(vc2, connectivity.Shutdown) })
		s.WaitQuiescent()
		parked := !th2.Done()
		vcancel2()
		s.WaitQuiescent()
		obs("WaitForStateChange(SHUTDOWN) blocks until the context ends", true, parked && th2.Done())
		obs("WaitForStateChange(SHUTDOWN) result", realWait, fakeWait)
	})
	if len(diffs) > 0 {
		return "MISMATCH", diffs
	}
	return "ok: 9 observations agree (WaitForStateChange blocking/true/false, Close twice, state after Close, Invoke after Close, wait on SHUTDOWN)", nil
}
