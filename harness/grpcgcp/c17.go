//go:build verif && go1.18

package grpcgcp

import (
	"context"
	"encoding/json"
	"fmt"
	"strings"
	"sync/atomic"

	"google.golang.org/grpc"
	"google.golang.org/grpc/balancer"
	"google.golang.org/grpc/connectivity"
	"google.golang.org/grpc/resolver"
	"google.golang.org/protobuf/encoding/protojson"
	"google.golang.org/protobuf/proto"

	pb "github.com/GoogleCloudPlatform/grpc-gcp-go/grpcgcp/grpc_gcp"
	"github.com/GoogleCloudPlatform/grpc-gcp-go/grpcgcp/multiendpoint"

	"verif/engine/vgrpc"
	"verif/engine/vsched"
)

func init() {
	extraChecks["C17"] = checkC17
}

func poolVariants(thorough bool) []*pb.ChannelPoolConfig {
	out := []*pb.ChannelPoolConfig{nil, {}}
	mins := []uint32{0, 1, 2, 3, 5, 9}
	maxs := []uint32{0, 1, 2, 5}
	wms := []uint32{0, 1, 2, 100, 101}
	idles := []uint64{0, 7}
	if !thorough {
		mins, maxs, wms, idles = []uint32{0, 2, 3, 5}, []uint32{0, 2, 5}, []uint32{0, 2, 101}, []uint64{0, 7}
	}
	for _, mn := range mins {
		for _, mx := range maxs {
			for _, wm := range wms {
				for _, fb := range []bool{false, true} {
					for _, ms := range []uint32{0, 1} {
						for _, calls := range []uint32{0, 1} {
							for _, strat := range []pb.ChannelPoolConfig_BindPickStrategy{0, 1, 2} {
								for _, idle := range idles {
									out = append(out, &pb.ChannelPoolConfig{MinSize: mn, MaxSize: mx, MaxConcurrentStreamsLowWatermark: wm, FallbackToReady: fb,
										UnresponsiveDetectionMs: ms, UnresponsiveCalls: calls, BindPickStrategy: strat, IdleTimeout: idle})
								}
							}
						}
					}
				}
			}
		}
	}
	return out
}

func methodEntries() []*pb.MethodConfig {
	names := [][]string{nil, {"m1"}, {"m2"}, {"m1", "m2"}, {"m1", "m1"}, {"/s/*"}}
	affs := []*pb.AffinityConfig{nil, {}}
	for _, cmd := range []pb.AffinityConfig_Command{0, 1, 2} {
		for _, k := range []string{"", "k", "key"} {
			affs = append(affs, &pb.AffinityConfig{Command: cmd, AffinityKey: k})
		}
	}
	var out []*pb.MethodConfig
	for _, n := range names {
		for _, a := range affs {
			out = append(out, &pb.MethodConfig{Name: n, Affinity: a})
		}
	}
	return out
}

func methodLists() [][]*pb.MethodConfig {
	es := methodEntries()
	out := [][]*pb.MethodConfig{nil}
	for _, e := range es {
		out = append(out, []*pb.MethodConfig{e})
	}
	for _, a := range es {
		for _, b := range es {
			out = append(out, []*pb.MethodConfig{a, b})
		}
	}
	return out
}

func cloneList(l []*pb.MethodConfig) []*pb.MethodConfig {
	var out []*pb.MethodConfig
	for _, m := range l {
		out = append(out, proto.Clone(m).(*pb.MethodConfig))
	}
	return out
}

type c17 struct {
	c    *vsched.RunCtx
	st   vsched.Stats
	viol map[string]*vsched.Violation
	nt   map[string]bool
}

func (x *c17) report(rule, cause, msg string) {
	sig := rule + " " + cause
	if v, ok := x.viol[sig]; ok {
		v.Count++
		return
	}
	x.viol[sig] = &vsched.Violation{Property: "C17", Rule: rule, Sig: sig, Msg: msg, Harness: "config", Count: 1}
}

func expectedEffective(c *pb.ApiConfig) *pb.ApiConfig {
	e := &pb.ApiConfig{ChannelPool: &pb.ChannelPoolConfig{}}
	if c != nil {
		e = proto.Clone(c).(*pb.ApiConfig)
	}
	if e.ChannelPool == nil {
		e.ChannelPool = &pb.ChannelPoolConfig{}
	}
	if e.ChannelPool.MinSize == 0 {
		e.ChannelPool.MinSize = 1
	}
	if e.ChannelPool.MaxSize == 0 {
		e.ChannelPool.MaxSize = 4
	}
	if e.ChannelPool.MaxConcurrentStreamsLowWatermark == 0 {
		e.ChannelPool.MaxConcurrentStreamsLowWatermark = 100
	}
	return e
}

func (x *c17) oneConfig(cfg *pb.ApiConfig, desc string) {
	x.st.Execs++
	parser := newBuilder().(balancer.ConfigParser)
	// ---- P1/P2: JSON ----
	var texts []string
	if cfg != nil {
		for _, mo := range []protojson.MarshalOptions{{}, {UseProtoNames: true}, {UseEnumNumbers: true}, {EmitUnpopulated: true}} {
			b, err := mo.Marshal(cfg)
			if err != nil {
				x.report("C17.P2", "cannot marshal", err.Error())
				continue
			}
			texts = append(texts, string(b))
		}
		j := texts[0]
		texts = append(texts,
			strings.Replace(j, "{", `{"zzUnknown":1,`, 1),
			strings.Replace(j, "{", `{"channelPool":"notAnObject",`, 1),
			j[:len(j)-1],
			j+"x",
			strings.Replace(j, `"maxSize":`, `"maxSize":"7x",`+`"minSize":`, 1),
			strings.Replace(j, `"BIND"`, `"NOPE"`, 1),
			strings.Replace(j, `"idleTimeout":"7"`, `"idleTimeout":7`, 1),
			strings.Replace(j, `"maxSize":`, `"maxSize":-`, 1),
			"", "null", "[]", `{"method":{}}`, `{"method":[{"name":"m1"}]}`, `{"method":[{"name":["m1"],"affinity":{"command":2,"affinity_key":"k"}}]}`)
	}
	for ti, t := range texts {
		x.st.Transitions++
		direct := &pb.ApiConfig{}
		derr := protojson.Unmarshal([]byte(t), direct)
		var got interface{}
		var perr error
		func() {
			defer func() {
				if r := recover(); r != nil {
					perr = fmt.Errorf("panic: %v", r)
					x.report("C17.P1", "ParseConfig panics", fmt.Sprintf("%q: %v", t, r))
				}
			}()
			got, perr = parser.ParseConfig(json.RawMessage(t))
		}()
		if (derr != nil) != (perr != nil) {
			if derr != nil {
				x.report("C17.P1", "ParseConfig accepts malformed JSON", fmt.Sprintf("%q: protojson says %v", t, derr))
			} else {
				x.report("C17.P1", "ParseConfig rejects well-formed JSON", fmt.Sprintf("%q: %v", t, perr))
			}
			continue
		}
		if perr != nil {
			continue
		}
		g, ok := got.(*GCPBalancerConfig)
		if !ok || g == nil || g.ApiConfig == nil {
			x.report("C17.P1", "ParseConfig returns no ApiConfig", t)
			continue
		}
		if !proto.Equal(g.ApiConfig, direct) {
			x.report("C17.P1", "ParseConfig result differs from the JSON content", fmt.Sprintf("%q -> %v", t, g.ApiConfig))
		}
		if ti < 4 && !proto.Equal(g.ApiConfig, cfg) {
			x.report("C17.P2", "round trip loses information", fmt.Sprintf("%v -> %q -> %v", cfg, t, g.ApiConfig))
		}
	}
	// ---- P3/P4/P5: effective configuration ----
	var caller *GCPBalancerConfig
	var orig *pb.ApiConfig
	var origBytes []byte
	if cfg != nil {
		caller = &GCPBalancerConfig{ApiConfig: cfg}
		orig = proto.Clone(cfg).(*pb.ApiConfig)
		origBytes, _ = proto.MarshalOptions{Deterministic: true}.Marshal(cfg)
	}
	cc := &fakeCC{}
	b := newBuilder().Build(cc, balancer.BuildOptions{})
	gb := b.(*gcpBalancer)
	st := balancer.ClientConnState{ResolverState: resolver.State{Addresses: addrLists["a1"]}}
	if caller != nil {
		st.BalancerConfig = caller
	}
	if err := b.UpdateClientConnState(st); err != nil {
		x.report("C17.P3", "first resolver update rejected", err.Error())
		return
	}
	exp := expectedEffective(cfg)
	if gb.cfg == nil || gb.cfg.ApiConfig == nil {
		x.report("C17.P3", "no effective configuration", desc)
		return
	}
	if !proto.Equal(gb.cfg.ApiConfig, exp) {
		x.report("C17.P3", "effective configuration differs from supplied+defaults", fmt.Sprintf("supplied %v\n effective %v\n expected  %v", cfg, gb.cfg.ApiConfig, exp))
	}
	// P7 (behaviour): initial pool size
	wantInit := int(exp.ChannelPool.MinSize)
	if n := cc.count("NewSubConn"); n != wantInit {
		x.report("C17.P7", "initial pool size does not match the effective minSize", fmt.Sprintf("%v: created %d, effective minSize %d", cfg.GetChannelPool(), n, wantInit))
	}
	// method table
	count := map[string]int{}
	var want = map[string]*pb.AffinityConfig{}
	for _, m := range cfg.GetMethod() {
		if m.GetAffinity() == nil {
			continue
		}
		seen := map[string]bool{}
		for _, n := range m.GetName() {
			if !seen[n] {
				count[n]++
				seen[n] = true
			}
			want[n] = m.GetAffinity()
		}
	}
	for n, k := range count {
		got, ok := gb.methodCfg[n]
		if k == 1 {
			x.nt["method|"+desc] = true
			if !ok || !proto.Equal(got, want[n]) {
				x.report("C17.P3", "method listed once is not mapped to its entry", fmt.Sprintf("%q in %v -> %v", n, cfg.GetMethod(), got))
			}
		}
	}
	for n := range gb.methodCfg {
		if count[n] == 0 {
			x.report("C17.P3", "method without an affinity entry is mapped", fmt.Sprintf("%q in %v", n, cfg.GetMethod()))
		}
	}
	x.probeMethods(b, gb, cc, cfg, count, want)
	if cfg != nil {
		// P4: caller's object untouched and not aliased
		nowBytes, _ := proto.MarshalOptions{Deterministic: true}.Marshal(cfg)
		if !proto.Equal(cfg, orig) || string(nowBytes) != string(origBytes) {
			x.report("C17.P4", "caller's configuration mutated by the balancer", fmt.Sprintf("before %v after %v", orig, cfg))
		}
		if cfg.ChannelPool != nil && gb.cfg.ChannelPool == cfg.ChannelPool {
			x.report("C17.P4", "effective configuration aliases the caller's channel_pool", desc)
		}
		for i, m := range cfg.Method {
			if i < len(gb.cfg.Method) && gb.cfg.Method[i] == m {
				x.report("C17.P4", "effective configuration aliases a caller's method entry", desc)
			}
			for n, a := range gb.methodCfg {
				if m.Affinity != nil && a == m.Affinity {
					x.report("C17.P4", "method table aliases a caller's affinity section", n)
				}
			}
		}
		// mutate the caller's object: effective must not follow
		effBefore := proto.Clone(gb.cfg.ApiConfig).(*pb.ApiConfig)
		if cfg.ChannelPool != nil {
			cfg.ChannelPool.MaxSize += 17
		}
		for _, m := range cfg.Method {
			m.Name = append(m.Name, "mutated")
			if m.Affinity != nil {
				m.Affinity.AffinityKey += "!"
			}
		}
		if !proto.Equal(gb.cfg.ApiConfig, effBefore) {
			x.report("C17.P4", "effective configuration follows later changes of the caller's object", desc)
		}
		for n, a := range gb.methodCfg {
			if strings.HasSuffix(a.GetAffinityKey(), "!") {
				x.report("C17.P4", "method table follows later changes of the caller's object", n)
			}
		}
		proto.Reset(cfg)
		proto.Merge(cfg, orig)
	}
	// P5: a second resolver update with another configuration changes nothing
	effBefore := proto.Clone(gb.cfg.ApiConfig).(*pb.ApiConfig)
	tableBefore := fmt.Sprint(len(gb.methodCfg))
	other := &GCPBalancerConfig{ApiConfig: &pb.ApiConfig{ChannelPool: &pb.ChannelPoolConfig{MinSize: 3, MaxSize: 9, MaxConcurrentStreamsLowWatermark: 55, FallbackToReady: !exp.ChannelPool.FallbackToReady},
		Method: []*pb.MethodConfig{{Name: []string{"other"}, Affinity: &pb.AffinityConfig{Command: pb.AffinityConfig_BIND, AffinityKey: "o"}}}}}
	b.UpdateClientConnState(balancer.ClientConnState{ResolverState: resolver.State{Addresses: addrLists["a2"]}, BalancerConfig: other})
	if !proto.Equal(gb.cfg.ApiConfig, effBefore) || fmt.Sprint(len(gb.methodCfg)) != tableBefore || gb.methodCfg["other"] != nil {
		x.report("C17.P5", "configuration changed by a later resolver update", fmt.Sprintf("first %v, now %v", effBefore, gb.cfg.ApiConfig))
	}
	x.nt["cfg|"+desc] = true
	// P5b: the configuration is fixed by the first resolver update even when that
	// update could not create a single connection (empty address list)
	if caller != nil {
		cc2 := &fakeCC{}
		b2 := newBuilder().Build(cc2, balancer.BuildOptions{})
		gb2 := b2.(*gcpBalancer)
		b2.UpdateClientConnState(balancer.ClientConnState{ResolverState: resolver.State{Addresses: addrLists["empty"]}, BalancerConfig: &GCPBalancerConfig{ApiConfig: proto.Clone(orig).(*pb.ApiConfig)}})
		b2.UpdateClientConnState(balancer.ClientConnState{ResolverState: resolver.State{Addresses: addrLists["a1"]}, BalancerConfig: other})
		if gb2.cfg == nil || !proto.Equal(gb2.cfg.ApiConfig, exp) || gb2.methodCfg["other"] != nil {
			x.report("C17.P5", "configuration replaced by a later resolver update after a first update that created no connection", fmt.Sprintf("first %v, now %v", exp, gb2.cfg))
		}
		b2.UpdateClientConnState(balancer.ClientConnState{ResolverState: resolver.State{Addresses: addrLists["a1"]}})
		if gb2.cfg == nil || !proto.Equal(gb2.cfg.ApiConfig, exp) {
			x.report("C17.P5", "configuration reset by a later resolver update without a configuration", fmt.Sprintf("first %v, now %v", exp, gb2.cfg))
		}
		// P5c: resolver errors before (and after) the first resolver update are not resolver updates:
		// the configuration that comes with the first update is the effective one
		cc3 := &fakeCC{}
		b3 := newBuilder().Build(cc3, balancer.BuildOptions{})
		gb3 := b3.(*gcpBalancer)
		b3.ResolverError(fmt.Errorf("dns: lookup failed"))
		b3.ResolverError(fmt.Errorf("dns: lookup failed"))
		b3.UpdateClientConnState(balancer.ClientConnState{ResolverState: resolver.State{Addresses: addrLists["a1"]}, BalancerConfig: &GCPBalancerConfig{ApiConfig: proto.Clone(orig).(*pb.ApiConfig)}})
		b3.ResolverError(fmt.Errorf("dns: lookup failed"))
		if gb3.cfg == nil || !proto.Equal(gb3.cfg.ApiConfig, exp) {
			x.report("C17.P5", "resolver errors around the first resolver update change the effective configuration", fmt.Sprintf("expected %v, effective %v", exp, gb3.cfg))
		}
		if n := cc3.count("NewSubConn"); n != int(exp.ChannelPool.MinSize) {
			x.report("C17.P7", "initial pool size after an early resolver error does not match the effective minSize", fmt.Sprintf("created %d, effective minSize %d", n, exp.ChannelPool.MinSize))
		}
	}
}

// P3 (behaviour): the method table is judged by what picks DO, not only by its
// content: every probed method name - listed ones, unlisted siblings, names
// that share a prefix or a service with a listed one, wildcard look-alikes -
// goes through a real Pick and completion on a READY pool. A method that is
// not listed must be treated as a plain call (no error, least-busy placement,
// no key bound or unbound by its reply); a method listed once with a key path
// that resolves must show its entry's command.
func (x *c17) probeMethods(b balancer.Balancer, gb *gcpBalancer, cc *fakeCC, cfg *pb.ApiConfig, count map[string]int, want map[string]*pb.AffinityConfig) {
	for _, sc := range cc.scs {
		b.UpdateSubConnState(sc, balancer.SubConnState{ConnectivityState: connectivity.Connecting})
		b.UpdateSubConnState(sc, balancer.SubConnState{ConnectivityState: connectivity.Ready})
	}
	pub := cc.latest()
	if pub == nil || pub.state != connectivity.Ready || len(cc.scs) == 0 {
		return
	}
	boundSC := cc.scs[len(cc.scs)-1]
	boundRef := gb.scRefs[boundSC]
	if boundRef == nil {
		return
	}
	multi := len(cc.scs) >= 2
	for i, n := range []string{"m1", "m2", "m3", "m", "m1x", "/s/*", "/s/a", "/s/", "/t/a", "*", ""} {
		if count[n] > 1 {
			continue // listed more than once: not judged
		}
		kq, kr := fmt.Sprintf("kq%d", i), fmt.Sprintf("kr%d", i)
		gb.bindSubConn(kq, boundSC)
		atomic.AddInt32(&boundRef.streamsCnt, 1) // the bound channel is never the least busy one
		g := &gcpContext{reqMsg: &reqMsg{Key: kq}}
		res, err := pub.picker.Pick(balancer.PickInfo{FullMethodName: n, Ctx: context.WithValue(context.Background(), gcpKey, g)})
		atomic.AddInt32(&boundRef.streamsCnt, -1)
		a := want[n]
		listed := count[n] == 1
		what := fmt.Sprintf("method %q with %v", n, cfg.GetMethod())
		if err != nil {
			if !listed {
				x.report("C17.P3", "a method that is not listed is treated as an affinity method (pick fails on the key lookup)", what+": "+err.Error())
			}
			gb.unbindSubConn(kq)
			continue
		}
		routedByKey := multi && res.SubConn == balancer.SubConn(boundSC)
		g.replyMsg = &replyMsg{Key: []string{kr}}
		if res.Done != nil {
			res.Done(balancer.DoneInfo{})
		}
		_, bound := gb.affinityMap[kr]
		_, still := gb.affinityMap[kq]
		switch {
		case !listed:
			if routedByKey || bound || !still {
				x.report("C17.P3", "a method that is not listed is treated as an affinity method", fmt.Sprintf("%s: routed by key=%v, reply key bound=%v, request key still bound=%v", what, routedByKey, bound, still))
			}
		case a.GetAffinityKey() == "key":
			x.nt["probe|"+what] = true
			ok := true
			switch a.GetCommand() {
			case pb.AffinityConfig_BIND:
				ok = bound
			case pb.AffinityConfig_BOUND:
				ok = !multi || routedByKey
			case pb.AffinityConfig_UNBIND:
				ok = !still
			}
			if !ok {
				x.report("C17.P3", "a method listed once does not behave as its entry says", fmt.Sprintf("%s: command %v; routed by key=%v, reply key bound=%v, request key still bound=%v", what, a.GetCommand(), routedByKey, bound, still))
			}
		}
		gb.unbindSubConn(kq)
		gb.unbindSubConn(kr)
	}
}

// P6: GCPMultiEndpoint neither mutates nor aliases the caller's configuration.
func (x *c17) gmeConfig(cfg *pb.ApiConfig, desc string) {
	x.st.Execs++
	vsched.Run(vsched.Opts{}, func(s *vsched.Sched) {
		vgrpc.Reset()
		orig := proto.Clone(cfg).(*pb.ApiConfig)
		origBytes, _ := proto.MarshalOptions{Deterministic: true}.Marshal(cfg)
		var gme *GCPMultiEndpoint
		var err error
		th := s.Go("construct", func() {
			gme, err = NewGCPMultiEndpoint(&GCPMultiEndpointOptions{GRPCgcpConfig: cfg, Default: "d",
				MultiEndpoints: map[string]*multiendpoint.MultiEndpointOptions{"d": {Endpoints: []string{"e1"}}},
				DialFunc: func(ctx context.Context, target string, opts ...grpc.DialOption) (*vgrpc.ClientConn, error) {
					cc := vgrpc.NewFake(target, opts)
					cc.SetState(connectivity.Ready)
					return cc, nil
				}})
		})
		s.WaitQuiescent()
		if th.PanicVal != nil || err != nil || gme == nil {
			x.report("C17.P6", "NewGCPMultiEndpoint fails for a valid configuration", fmt.Sprintf("%v: panic=%v err=%v", cfg, th.PanicVal, err))
			return
		}
		nowBytes, _ := proto.MarshalOptions{Deterministic: true}.Marshal(cfg)
		if !proto.Equal(cfg, orig) || string(nowBytes) != string(origBytes) {
			x.report("C17.P6", "caller's configuration mutated by NewGCPMultiEndpoint", desc)
		}
		a, b := gme.GCPConfig(), gme.GCPConfig()
		if !proto.Equal(a, orig) {
			x.report("C17.P6", "GCPConfig() differs from the supplied configuration", fmt.Sprintf("%v vs %v", a, orig))
		}
		if a == cfg || a == b || a == gme.gcpConfig || (cfg.ChannelPool != nil && (a.ChannelPool == cfg.ChannelPool || a.ChannelPool == gme.gcpConfig.ChannelPool)) {
			x.report("C17.P6", "GCPConfig() shares memory", desc)
		}
		for i := range cfg.Method {
			if a.Method[i] == cfg.Method[i] || a.Method[i] == gme.gcpConfig.Method[i] || gme.gcpConfig.Method[i] == cfg.Method[i] {
				x.report("C17.P6", "GCPConfig() shares a method entry", desc)
			}
		}
		if a.ChannelPool != nil {
			a.ChannelPool.MaxSize += 5
		}
		for _, m := range a.Method {
			m.Name = append(m.Name, "x")
		}
		if !proto.Equal(gme.GCPConfig(), orig) {
			x.report("C17.P6", "mutating the result of GCPConfig() changes the stored configuration", desc)
		}
		if cfg.ChannelPool != nil {
			cfg.ChannelPool.MinSize += 3
			if !proto.Equal(gme.GCPConfig(), orig) {
				x.report("C17.P6", "stored configuration follows later changes of the caller's object", desc)
			}
			cfg.ChannelPool.MinSize -= 3
		}
		x.nt["gme|"+desc] = true
		th = s.Go("close", func() { gme.Close() })
		s.WaitQuiescent()
		x.gmeSharedDialOptions(s, cfg, desc)
	})
}

// P6b: the caller's dial-option slice is neither written to nor aliased: two
// GCPMultiEndpoints built from the same slice (with spare capacity) and
// different configurations keep dialing each of their pools - also the ones
// created later by UpdateMultiEndpoints - with their own configuration.
func (x *c17) gmeSharedDialOptions(s *vsched.Sched, cfg *pb.ApiConfig, desc string) {
	vgrpc.Reset()
	user := make([]grpc.DialOption, 1, 12)
	user[0] = grpc.WithAuthority("caller-option")
	dial := func(ctx context.Context, target string, opts ...grpc.DialOption) (*vgrpc.ClientConn, error) {
		cc := vgrpc.NewFake(target, opts)
		cc.SetState(connectivity.Ready)
		return cc, nil
	}
	mk := func(c *pb.ApiConfig, eps ...string) *GCPMultiEndpointOptions {
		return &GCPMultiEndpointOptions{GRPCgcpConfig: c, Default: "d", DialFunc: dial,
			MultiEndpoints: map[string]*multiendpoint.MultiEndpointOptions{"d": {Endpoints: eps}}}
	}
	other := proto.Clone(cfg).(*pb.ApiConfig)
	if other.ChannelPool == nil {
		other.ChannelPool = &pb.ChannelPoolConfig{}
	}
	other.ChannelPool.MaxSize += 7
	var a, b *GCPMultiEndpoint
	var errA, errB, errU error
	th := s.Go("two-gmes", func() {
		a, errA = NewGCPMultiEndpoint(mk(cfg, "a1"), user...)
		b, errB = NewGCPMultiEndpoint(mk(other, "b1"), user...)
		if errA == nil && errB == nil {
			errU = a.UpdateMultiEndpoints(mk(cfg, "a1", "a2"))
		}
	})
	s.WaitQuiescent()
	if th.PanicVal != nil || errA != nil || errB != nil || errU != nil || !th.Done() {
		x.report("C17.P6", "GCPMultiEndpoints sharing a dial-option slice fail", fmt.Sprintf("%s: panic=%v errs=%v %v %v", desc, th.PanicVal, errA, errB, errU))
		return
	}
	for i, o := range user[:cap(user)] {
		if i > 0 && o != nil {
			x.report("C17.P6", "caller's dial-option slice written to", fmt.Sprintf("spare slot %d of the caller's slice was filled by NewGCPMultiEndpoint", i))
			break
		}
	}
	var first []grpc.DialOption
	for _, cc := range vgrpc.Dialed {
		if !strings.HasPrefix(cc.Target, "a") {
			continue
		}
		if first == nil {
			first = cc.Opts
			continue
		}
		same := len(first) == len(cc.Opts)
		for i := 0; same && i < len(first); i++ {
			same = first[i] == cc.Opts[i]
		}
		if !same {
			x.report("C17.P6", "a later pool is dialed with other options (pool configuration) than the first pool of the same GCPMultiEndpoint", fmt.Sprintf("pool %s of a GCPMultiEndpoint whose dial-option slice was also given to another GCPMultiEndpoint", cc.Target))
		}
	}
	th = s.Go("close2", func() { a.Close(); b.Close() })
	s.WaitQuiescent()
}

func checkC17(c *vsched.RunCtx) {
	x := &c17{c: c, viol: map[string]*vsched.Violation{}, nt: map[string]bool{}}
	x.st = vsched.Stats{Name: "config", Kind: "inputs", Outcomes: map[string]int{}}
	pools := poolVariants(c.Thorough())
	lists := methodLists()
	someLists := [][]*pb.MethodConfig{nil, lists[9], lists[20], lists[len(lists)/2], lists[len(lists)-1], lists[45]}
	somePools := []*pb.ChannelPoolConfig{nil, {}, pools[2], pools[len(pools)/2], pools[len(pools)-1]}
	type pair struct {
		p *pb.ChannelPoolConfig
		l []*pb.MethodConfig
	}
	var work []pair
	for _, p := range pools {
		for _, l := range someLists {
			work = append(work, pair{p, l})
		}
	}
	for _, l := range lists {
		for _, p := range somePools {
			work = append(work, pair{p, l})
		}
	}
	for i, w := range work {
		if i%c.NShards != c.Shard {
			continue
		}
		cfg := &pb.ApiConfig{Method: cloneList(w.l)}
		if w.p != nil {
			cfg.ChannelPool = proto.Clone(w.p).(*pb.ChannelPoolConfig)
		}
		desc := fmt.Sprintf("%v", cfg)
		x.oneConfig(cfg, desc)
		if i%23 == 0 {
			x.gmeConfig(cfg, desc)
		}
		if len(x.st.Samples) < 3 && i%997 == c.Shard {
			j, _ := protojson.Marshal(cfg)
			x.st.Samples = append(x.st.Samples, map[string]interface{}{"config_json": string(j)})
		}
	}
	if c.Shard == 0 {
		x.oneConfig(nil, "nil config")
	}
	x.st.Bound = fmt.Sprintf("%d channel_pool values x 6 method lists + %d method lists (0-2 entries over 5 name lists x 8 affinity sections) x 5 channel_pool values; 18 JSON texts per configuration", len(pools), len(lists))
	x.st.States = len(work)
	for k := range x.nt {
		if strings.HasPrefix(k, "cfg|") {
			x.st.Nontrivial++
		}
	}
	if len(x.st.Samples) == 0 {
		x.st.Samples = append(x.st.Samples, map[string]interface{}{"config_json": "{}"})
	}
	c.AddStats(x.st)
	for _, v := range x.viol {
		c.AddViolation(*v)
	}
	c.Assume("reference for JSON acceptance: protojson.Unmarshal into a plain ApiConfig; names listed in more than one entry with an affinity section are not judged (the statement covers names listed once)")
}
