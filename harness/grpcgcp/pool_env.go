//go:build verif && go1.18

package grpcgcp

import (
	"fmt"
	"strings"

	"google.golang.org/grpc/balancer"
	"google.golang.org/grpc/connectivity"
	"google.golang.org/grpc/resolver"

	"verif/engine/vsched"
	"verif/engine/vsync"
)

// ---- the fake balancer.ClientConn: behaves like ccBalancerWrapper of grpc v1.56.3 ----

type fakeSC struct {
	id    int
	cc    *fakeCC
	addrs string // name of the address list this connection uses
	// retained: the very slice last accepted by the connection (gRPC keeps it without copying)
	retained []resolver.Address
	removed  bool // RemoveSubConn was called
	// environment side: last state delivered to the balancer for this connection
	state     connectivity.State
	reported  bool
	shutdown  bool
	connects  int // total Connect() calls
	opConnect int // Connect() calls during the current operation
	opAddrUpd int
	unknown   bool // never handed to the balancer (created by the harness)
}

func (sc *fakeSC) VOrder() int { return sc.id }
func (sc *fakeSC) String() string {
	if sc == nil {
		return "sc<nil>"
	}
	return fmt.Sprintf("sc%d", sc.id)
}

func (sc *fakeSC) UpdateAddresses(a []resolver.Address) {
	yield("sc.UpdateAddresses")
	// like addrConn.updateAddrs of grpc v1.56.3: the connection KEEPS the slice it was given (it does
	// not copy it) and ignores an update whose list equals the one it holds - so a balancer that
	// rewrites a slice it handed out earlier makes the connection believe nothing changed
	if sc.retained == nil || addrName(sc.retained) != addrName(a) {
		sc.retained = a
		sc.addrs = addrName(a)
	}
	sc.opAddrUpd++
	sc.cc.ev("UpdateAddresses", sc, sc.addrs)
}

func (sc *fakeSC) Connect() {
	yield("sc.Connect")
	sc.connects++
	sc.opConnect++
	sc.cc.ev("Connect", sc, "")
}

func (sc *fakeSC) GetOrBuildProducer(balancer.ProducerBuilder) (balancer.Producer, func()) {
	return nil, func() {}
}

type ccEvent struct {
	Kind string
	SC   *fakeSC
	Arg  string
}

type publication struct {
	gen    int
	state  connectivity.State
	picker balancer.Picker
	// reference snapshot taken at publication time: connections whose last
	// reported state was READY (by slot)
	ready []*refSlot
	inOp  int // operation index
}

type fakeCC struct {
	scs         []*fakeSC
	failFactory bool
	events      []ccEvent // calls received during the current operation
	pubs        []*publication
	pubMu       vsync.Mutex
	w           *poolWorld
}

func yield(what string) {
	if s := vsched.S; s != nil && !s.Unwinding(s.Running()) {
		s.Yield(nil, what)
	}
}

func (cc *fakeCC) ev(kind string, sc *fakeSC, arg string) {
	cc.events = append(cc.events, ccEvent{kind, sc, arg})
}

func addrName(a []resolver.Address) string {
	if len(a) == 0 {
		return "empty"
	}
	var n []string
	for _, x := range a {
		e := x.Addr
		if x.ServerName != "" {
			e += "/" + x.ServerName
		}
		n = append(n, e)
	}
	return strings.Join(n, "+")
}

func (cc *fakeCC) NewSubConn(addrs []resolver.Address, _ balancer.NewSubConnOptions) (balancer.SubConn, error) {
	yield("cc.NewSubConn")
	if len(addrs) == 0 {
		cc.ev("NewSubConn-failed", nil, "empty")
		return nil, fmt.Errorf("grpc: cannot create SubConn with empty address list")
	}
	if cc.failFactory {
		cc.ev("NewSubConn-failed", nil, addrName(addrs))
		return nil, fmt.Errorf("fake: connection factory fails")
	}
	sc := &fakeSC{id: len(cc.scs), cc: cc, addrs: addrName(addrs), retained: addrs, state: connectivity.Idle}
	cc.scs = append(cc.scs, sc)
	cc.ev("NewSubConn", sc, sc.addrs)
	return sc, nil
}

func (cc *fakeCC) RemoveSubConn(sc balancer.SubConn) {
	yield("cc.RemoveSubConn")
	f, _ := sc.(*fakeSC)
	if f != nil {
		f.removed = true
	}
	cc.ev("RemoveSubConn", f, "")
}

func (cc *fakeCC) UpdateAddresses(sc balancer.SubConn, a []resolver.Address) {
	if f, ok := sc.(*fakeSC); ok {
		f.UpdateAddresses(a)
	}
}

func (cc *fakeCC) UpdateState(st balancer.State) {
	cc.pubMu.Lock()
	p := &publication{gen: len(cc.pubs), state: st.ConnectivityState, picker: st.Picker}
	if cc.w != nil {
		p.ready = cc.w.refReadySlots()
		p.inOp = cc.w.opIndex
	}
	cc.pubs = append(cc.pubs, p)
	cc.pubMu.Unlock()
	cc.ev("UpdateState", nil, st.ConnectivityState.String())
}

func (cc *fakeCC) ResolveNow(resolver.ResolveNowOptions) { cc.ev("ResolveNow", nil, "") }
func (cc *fakeCC) Target() string                        { return "fake:///target" }

func (cc *fakeCC) latest() *publication {
	cc.pubMu.Lock()
	defer cc.pubMu.Unlock()
	if len(cc.pubs) == 0 {
		return nil
	}
	return cc.pubs[len(cc.pubs)-1]
}

func (cc *fakeCC) count(kind string) int {
	n := 0
	for _, e := range cc.events {
		if e.Kind == kind {
			n++
		}
	}
	return n
}

// ---- request / reply messages ----

type reqMsg struct{ Key string }
type reqListMsg struct{ Key []string }
type replyMsg struct{ Key []string }
type otherMsg struct{ Name string }

var addrLists = map[string][]resolver.Address{
	"a1":    {{Addr: "a1"}},
	"a2":    {{Addr: "a2"}},
	"empty": {},
	// lists that differ from each other only by order or by per-address metadata
	"a1+a2":   {{Addr: "a1"}, {Addr: "a2"}},
	"a2+a1":   {{Addr: "a2"}, {Addr: "a1"}},
	"a1/s+a2": {{Addr: "a1", ServerName: "s"}, {Addr: "a2"}},
}

const (
	mPlain  = "/svc/plain"
	mBind   = "/svc/bind"
	mBound  = "/svc/bound"
	mUnbind = "/svc/unbind"
	mBadLoc = "/svc/badloc" // BOUND with a locator that does not resolve
)

func methodOf(cmd string) string {
	switch cmd {
	case "bind":
		return mBind
	case "bound":
		return mBound
	case "unbind":
		return mUnbind
	case "badloc":
		return mBadLoc
	}
	return mPlain
}
