//go:build verif && go1.18

package grpcgcp

import (
	"fmt"
	"sort"
	"strings"
	"time"

	"google.golang.org/grpc/balancer"
	"google.golang.org/grpc/connectivity"
	"google.golang.org/grpc/resolver"

	"verif/engine/vsched"
)

// Pairwise atomicity of pool operations — a differential oracle with no
// hand-written expected values: for a prepared state S and two operations A,
// B (a pick on the latest or on a superseded picker, a completion of each
// kind, a state report, a resolver update), the real code is first run
// sequentially in both orders (A;B and B;A) and per-property projections of
// the real end state are recorded; then A ∥ B is explored under the schedule
// explorer and every execution's projection must equal the one of one of the
// two orders. A window between a check and an act, a lock released too early,
// a lost wake-up or a lost update shows as an end state no order produces.

type pairOp struct {
	name string
	fn   func(w *poolWorld, res *[]string)
	// pure: a pick on the latest picker that is not completed within the tuple. Picks on one picker
	// are serialised by the picker's own mutex (getAndIncrementSubConnRef), so a tuple of pure picks
	// must leave the per-channel stream counts of one of its sequential orders.
	pure bool
}

type pairState struct {
	name string
	cfg  poolCfg
	ops  func(w *poolWorld) []pairOp
	// placeProp: the property the placement differential of this state speaks for ("C02" if empty)
	placeProp string
}

// openPick: a pick that stays open, judged by the placement differential also on a superseded picker
// (round-robin BIND slots are handed out balancer-wide, whatever picker the call came through)
func openPick(name, cmd, key, gen string) pairOp {
	o := pickOp(name, cmd, key, gen, false, "")
	o.pure = true
	return o
}

func pickOp(name, cmd, key, gen string, deadline bool, complete string) pairOp {
	return pairOp{name: name, pure: complete == "" && gen == "L", fn: func(w *poolWorld, res *[]string) {
		pub := w.pubFor(gen)
		if gen == "L" {
			pub = w.cc.latest()
		}
		dl := 0
		_ = dl
		rc := w.rawPick(cmd, key, pub, true, 0, false)
		if rc.err != nil {
			*res = append(*res, name+"="+errClass(rc.err))
		} else {
			*res = append(*res, fmt.Sprintf("%s=%v", name, rc.sc))
		}
		if complete != "" {
			rc.complete(complete)
		}
	}}
}

func doneOp(name string, idx int, outcome string) pairOp {
	return pairOp{name: name, fn: func(w *poolWorld, res *[]string) {
		rc := callOf(w.pairCalls[idx])
		rc.w = w
		rc.complete(outcome)
	}}
}

// gRPC delivers UpdateSubConnState / UpdateClientConnState to a balancer one at
// a time (ccBalancerWrapper's serializer) and reports nothing for a SubConn
// after its SHUTDOWN: balancer callbacks of a tuple exclude each other (their
// order is still explored), picks and completions overlap them freely.
func stateOp(name string, sc int, st connectivity.State) pairOp {
	return pairOp{name: name, fn: func(w *poolWorld, res *[]string) {
		w.serializer.Lock()
		defer w.serializer.Unlock()
		if w.cc.scs[sc].state == connectivity.Shutdown {
			return
		}
		w.rawState(sc, st)
	}}
}

func resolveOp(name, list string) pairOp {
	return pairOp{name: name, fn: func(w *poolWorld, res *[]string) {
		w.serializer.Lock()
		defer w.serializer.Unlock()
		w.b.UpdateClientConnState(balancer.ClientConnState{ResolverState: resolver.State{Addresses: addrLists[list]}, BalancerConfig: &GCPBalancerConfig{ApiConfig: w.cfg.apiConfig()}})
	}}
}

func pairStates() []pairState {
	return []pairState{
		{name: "growth", cfg: poolCfg{Name: "pairs growth min=1 max=2 wm=1", Min: 1, Max: 2, WM: 1,
			Setup: append(readyPool(1), "state(0,IDLE)", "state(0,CONNECTING)", "state(0,READY)", "pick(plain,,L,g)")},
			ops: func(w *poolWorld) []pairOp {
				return []pairOp{
					pickOp("pickL", "plain", "", "L", false, "ok"),
					pickOp("pickO", "plain", "", "O", false, "ok"),
					doneOp("doneOk", 0, "ok"),
					stateOp("sc0-IDLE", 0, connectivity.Idle),
					resolveOp("resolve-a2", "a2"),
				}
			}},
		{name: "refresh-armed", cfg: poolCfg{Name: "pairs refresh-armed pool=2", Min: 2, Max: 2, WM: 100, Fallback: true, RefCalls: 1, RefMs: 1,
			Setup: append(readyPool(2), "pick(bind,,L,g)", "done(0,ok:k1)", "pick(plain,,L,g,d1)", "pick(plain,,L,g,d1)", "pick(bind,,L,g)", "adv(2)")},
			ops: func(w *poolWorld) []pairOp {
				return []pairOp{
					doneOp("c0-deadline", 0, "cde"),
					doneOp("c1-deadline", 1, "cde"),
					doneOp("bind-ok:k2", 2, "ok:k2"),
					pickOp("bound-k1", "bound", "k1", "L", false, "ok"),
					pickOp("plain", "plain", "", "L", false, "ok"),
					resolveOp("resolve-a2", "a2"),
					stateOp("sc0-IDLE", 0, connectivity.Idle),
					stateOp("sc1-IDLE", 1, connectivity.Idle),
				}
			}},
		{name: "refresh-inflight", cfg: poolCfg{Name: "pairs refresh-inflight pool=2", Min: 2, Max: 2, WM: 100, Fallback: true, RefCalls: 1, RefMs: 1,
			Setup: append(readyPool(2), "pick(bind,,L,g)", "done(0,ok:k1)", "pick(plain,,L,g,d1)", "pick(plain,,L,g,d1)", "pick(bind,,L,g)", "adv(2)", "done(0,cde)", "state(2,CONNECTING)")},
			ops: func(w *poolWorld) []pairOp {
				return []pairOp{
					stateOp("replacement-READY", 2, connectivity.Ready),
					doneOp("c1-deadline", 0, "cde"),
					doneOp("bind-ok:k2", 1, "ok:k2"),
					pickOp("bound-k1", "bound", "k1", "L", false, "ok"),
					pickOp("unbind-k1", "unbind", "k1", "L", false, "ok"),
					pickOp("plain", "plain", "", "L", false, "ok"),
					resolveOp("resolve-a2", "a2"),
					stateOp("sc0-IDLE", 0, connectivity.Idle),
					stateOp("sc0-SHUTDOWN", 0, connectivity.Shutdown),
				}
			}},
		// the swap is done: the retired connection's SHUTDOWN report is still to come, a BIND and a
		// deadline call placed before the swap are still open
		{name: "swap-done", cfg: poolCfg{Name: "pairs swap-done pool=2", Min: 2, Max: 2, WM: 100, Fallback: true, RefCalls: 1, RefMs: 1,
			Setup: append(readyPool(2), "pick(bind,,L,g)", "done(0,ok:k1)", "pick(plain,,L,g,d1)", "pick(plain,,L,g,d1)", "pick(bind,,L,g)", "adv(2)", "done(0,cde)", "state(2,CONNECTING)", "state(2,READY)")},
			ops: func(w *poolWorld) []pairOp {
				return []pairOp{
					stateOp("retired-SHUTDOWN", 0, connectivity.Shutdown),
					doneOp("c1-deadline", 0, "cde"),
					doneOp("bind-ok:k2", 1, "ok:k2"),
					pickOp("bound-k1", "bound", "k1", "L", false, "ok"),
					pickOp("bound-k1-O", "bound", "k1", "O", false, "ok"),
					pickOp("unbind-k1", "unbind", "k1", "L", false, "ok"),
					resolveOp("resolve-a2", "a2"),
					stateOp("sc2-IDLE", 2, connectivity.Idle),
				}
			}},
		// a pool below its minimum after a SHUTDOWN, growth allowed
		{name: "shrunk", cfg: poolCfg{Name: "pairs shrunk min=2 max=3 wm=1", Min: 2, Max: 3, WM: 1,
			Setup: append(readyPool(2), "pick(bind,,L,g)", "done(0,ok:k1)", "pick(plain,,L,g)", "pick(plain,,L,g)")},
			ops: func(w *poolWorld) []pairOp {
				return []pairOp{
					pickOp("pickL", "plain", "", "L", false, "ok"),
					pickOp("pickO", "plain", "", "O", false, "ok"),
					pickOp("bound-k1", "bound", "k1", "L", false, "ok"),
					stateOp("sc0-SHUTDOWN", 0, connectivity.Shutdown),
					stateOp("sc1-TF", 1, connectivity.TransientFailure),
					doneOp("c0-ok", 0, "ok"),
					resolveOp("resolve-a2", "a2"),
				}
			}},
		{name: "rr", cfg: poolCfg{Name: "pairs rr pool=2", Min: 2, Max: 2, WM: 100, RR: true,
			Setup: []string{"resolve(a1)", "state(0,CONNECTING)", "state(0,READY)", "state(1,CONNECTING)"}},
			ops: func(w *poolWorld) []pairOp {
				return []pairOp{
					pickOp("bindA", "bind", "", "L", false, "ok"),
					pickOp("bindB", "bind", "", "L", false, "ok"),
					pickOp("plain", "plain", "", "L", false, "ok"),
					stateOp("sc1-READY", 1, connectivity.Ready),
					stateOp("sc0-IDLE", 0, connectivity.Idle),
				}
			}},
		// placement: three READY channels, one call open; picks that stay open
		{name: "placement", cfg: poolCfg{Name: "pairs placement pool=3", Min: 3, Max: 3, WM: 100,
			Setup: append(readyPool(3), "pick(bind,,L,g)", "done(0,ok:k1)", "pick(plain,,L,g)")},
			ops: func(w *poolWorld) []pairOp {
				return []pairOp{
					pickOp("plainA", "plain", "", "L", false, ""),
					pickOp("plainB", "plain", "", "L", false, ""),
					pickOp("plainC", "plain", "", "L", false, ""),
					pickOp("unknown-key", "bound", "kX", "L", false, ""),
					pickOp("bindP", "bind", "", "L", false, ""),
					pickOp("bound-k1", "bound", "k1", "L", false, ""),
				}
			}},
		// the balancer was selected by name only (first resolver update without a configuration); a
		// later update brings one while calls are being placed and completed
		{name: "late-config", cfg: poolCfg{Name: "pairs late-config", NilCfg: true, Setup: append(readyPool(1), "pick(plain,,L,g)")},
			ops: func(w *poolWorld) []pairOp {
				return []pairOp{
					resolveOp("resolve-a2", "a2"),
					pickOp("plainL", "plain", "", "L", false, "ok"),
					pickOp("bindL", "bind", "", "L", false, "ok:k1"),
					doneOp("c0-ok", 0, "ok"),
					stateOp("sc0-IDLE", 0, connectivity.Idle),
				}
			}},
		// two BIND calls open on different channels whose replies name the same key
		{name: "two-binds", cfg: poolCfg{Name: "pairs two-binds pool=2", Min: 2, Max: 2, WM: 100,
			Setup: append(readyPool(2), "pick(bind,,L,g)", "pick(bind,,L,g)")},
			ops: func(w *poolWorld) []pairOp {
				return []pairOp{
					doneOp("bindA-ok:k1", 0, "ok:k1"),
					doneOp("bindB-ok:k1", 1, "ok:k1"),
					pickOp("bound-k1", "bound", "k1", "L", false, "ok"),
					pickOp("bound-k1-again", "bound", "k1", "L", false, "ok"),
					pickOp("plain", "plain", "", "L", false, "ok"),
				}
			}},
		// round-robin, both channels READY, a superseded picker still in use: BIND slots are handed out
		// by the balancer, so overlapping BINDs (through whichever picker) must land on distinct channels
		{name: "rr-ready", placeProp: "C09", cfg: poolCfg{Name: "pairs rr-ready pool=2", Min: 2, Max: 2, WM: 100, RR: true, Setup: readyPool(2)},
			ops: func(w *poolWorld) []pairOp {
				return []pairOp{
					openPick("bindL1", "bind", "", "L"),
					openPick("bindL2", "bind", "", "L"),
					openPick("bindO1", "bind", "", "O"),
					openPick("bindO2", "bind", "", "O"),
				}
			}},
		// round-robin BIND while the pool can still grow
		{name: "rr-growth", cfg: poolCfg{Name: "pairs rr-growth min=1 max=2 wm=1", Min: 1, Max: 2, WM: 1, RR: true,
			Setup: append(readyPool(1), "pick(plain,,L,g)")},
			ops: func(w *poolWorld) []pairOp {
				return []pairOp{
					pickOp("bindA", "bind", "", "L", false, "ok:k1"),
					pickOp("bindB", "bind", "", "L", false, "ok:k2"),
					pickOp("plainL", "plain", "", "L", false, "ok"),
					doneOp("c0-ok", 0, "ok"),
					resolveOp("resolve-a2", "a2"),
					stateOp("sc0-IDLE", 0, connectivity.Idle),
				}
			}},
		{name: "fallback", cfg: poolCfg{Name: "pairs fallback pool=3", Min: 3, Max: 3, WM: 100, Fallback: true,
			Setup: append(readyPool(3), "pick(bind,,L,g)", "done(0,ok:k1+k2)", "state(1,IDLE)", "state(1,CONNECTING)", "state(1,READY)", "state(0,IDLE)")},
			ops: func(w *poolWorld) []pairOp {
				return []pairOp{
					pickOp("bound-k1-L", "bound", "k1", "L", false, "ok"),
					pickOp("bound-k2-O", "bound", "k2", "O", false, "ok"),
					pickOp("unbind-k1", "unbind", "k1", "L", false, "ok"),
					stateOp("sc0-CONNECTING", 0, connectivity.Connecting),
					stateOp("sc1-IDLE", 1, connectivity.Idle),
					pickOp("bind", "bind", "", "L", false, "ok:k1"),
					stateOp("sc0-SHUTDOWN", 0, connectivity.Shutdown),
				}
			}},
	}
}

// invariants of the REAL end state that no interleaving may break (they do not
// depend on which channel a call happened to be placed on); boundKeys is the
// differential part: the set of bound keys must be the one of a sequential order.
func (w *poolWorld) invariants(openCalls int, resolved string, blocked []string) (map[string][]string, string) {
	gb := w.gb
	// (no lock: the controller runs only when every thread is parked or finished, and a lock that
	// the code under test leaked must show as a verdict, not block the harness)
	name := func(sc balancer.SubConn) string {
		if f, ok := sc.(*fakeSC); ok && f != nil {
			return f.String()
		}
		return "sc?"
	}
	bad := map[string][]string{}
	add := func(p, msg string) { bad[p] = append(bad[p], msg) }
	// C02: conservation of stream counts
	// (over the channels of the pool now and the ones that were in it when the tuple started: a channel
	// that was shut down meanwhile keeps the calls placed on it)
	total := 0
	refs := map[*subConnRef]bool{}
	for _, ref := range w.pairRefs {
		refs[ref] = true
	}
	for _, ref := range gb.scRefs {
		refs[ref] = true
	}
	for ref := range refs {
		if ref.streamsCnt < 0 {
			add("C02", fmt.Sprintf("negative stream count on %s: %d", name(ref.subConn), ref.streamsCnt))
		}
		total += int(ref.streamsCnt)
	}
	if total != openCalls {
		add("C02", fmt.Sprintf("stream counts sum to %d with %d calls placed and not completed", total, openCalls))
	}
	// C01: bindings point into the pool, affinity counts match
	var keys []string
	perSC := map[balancer.SubConn]int{}
	for k, sc := range gb.affinityMap {
		keys = append(keys, k)
		perSC[sc]++
		if _, ok := gb.scRefs[sc]; !ok {
			// a key whose channel was shut down keeps its (dead) entry: C01's history rules judge how
			// such a key is served; pointing at a connection that is merely retired, or was never in
			// the pool, is a lost binding
			if f, isFake := sc.(*fakeSC); !isFake || f == nil || f.state != connectivity.Shutdown {
				add("C01", fmt.Sprintf("key %s is bound to %s which is not a pool connection and was not shut down", k, name(sc)))
			}
		}
	}
	sort.Strings(keys)
	// (the internal affinity counter is not judged: it is incremented by every BIND reply, also for
	// keys that were already bound, and no behaviour the properties describe depends on it)
	_ = perSC
	// C08: stand-ins are READY pool connections
	for k, sc := range gb.fallbackMap {
		if _, ok := gb.scRefs[sc]; !ok || gb.scStates[sc] != connectivity.Ready {
			add("C08", fmt.Sprintf("stand-in of %s is %s (state %v, in pool %v)", k, name(sc), gb.scStates[sc], ok))
		}
	}
	// C03: size
	if n, max := len(gb.scRefs), w.cfg.effMax(); n > max {
		add("C03", fmt.Sprintf("%d pool channels, maxSize %d", n, max))
	}
	// C04: published state and picker match the pool
	ready, conn := []string{}, false
	for sc, st := range gb.scStates {
		if st == connectivity.Ready {
			ready = append(ready, name(sc))
		}
		if st == connectivity.Connecting {
			conn = true
		}
	}
	sort.Strings(ready)
	if n := len(w.cc.pubs); n > 0 && len(gb.scStates) > 0 {
		p := w.cc.pubs[n-1]
		want := connectivity.TransientFailure
		if len(ready) > 0 {
			want = connectivity.Ready
		} else if conn {
			want = connectivity.Connecting
		}
		if p.state != want {
			add("C04", fmt.Sprintf("published %v, pool aggregate %v", p.state, want))
		}
		if gp, ok := p.picker.(*gcpPicker); ok {
			var ids []string
			for _, r := range gp.scRefs {
				ids = append(ids, name(r.subConn))
			}
			sort.Strings(ids)
			if strings.Join(ids, ",") != strings.Join(ready, ",") {
				add("C04", fmt.Sprintf("latest picker holds [%s], READY pool connections are [%s]", strings.Join(ids, ","), strings.Join(ready, ",")))
			}
		} else if want != connectivity.TransientFailure {
			add("C04", "error picker published although the pool is not in TRANSIENT_FAILURE")
		}
	}
	// C07: refreshing flag <=> a pending replacement
	pending := map[*subConnRef]int{}
	for _, ref := range gb.refreshingScRefs {
		pending[ref]++
	}
	for sc, ref := range gb.scRefs {
		if ref.refreshing != (pending[ref] == 1) || pending[ref] > 1 {
			add("C07", fmt.Sprintf("%s: refreshing=%v with %d pending replacements", name(sc), ref.refreshing, pending[ref]))
		}
	}
	// C20: after a resolver update every pool connection and pending replacement uses the new list
	if resolved != "" {
		for sc := range gb.scRefs {
			if f := sc.(*fakeSC); f.addrs != resolved {
				add("C20", fmt.Sprintf("%s uses %q, latest resolved list is %q", name(sc), f.addrs, resolved))
			}
		}
		for sc := range gb.refreshingScRefs {
			if f := sc.(*fakeSC); f.addrs != resolved {
				add("C20", fmt.Sprintf("pending replacement %s uses %q, latest resolved list is %q", name(sc), f.addrs, resolved))
			}
		}
	}
	// C06 / C09: nothing may stay blocked except a round-robin BIND whose pool has a channel that is not READY
	for _, b := range blocked {
		allReady := len(gb.scStates) > 0
		for _, st := range gb.scStates {
			if st != connectivity.Ready {
				allReady = false
			}
		}
		if !strings.HasPrefix(b, "bind") || !w.cfg.RR || allReady {
			add("C06", "operation "+b+" never returns")
			if strings.HasPrefix(b, "bind") {
				add("C09", "BIND "+b+" still waiting although every channel is READY")
			}
		}
	}
	for p := range bad {
		sort.Strings(bad[p]) // map iteration order must not leak into verdict signatures
	}
	return bad, strings.Join(keys, ",")
}

type pairRun struct {
	bad     map[string][]string
	counts  string // per-channel stream counts, sorted
	keys    string
	results []string
	broken  string
}

// runTuple executes the operations idx on a fresh world: sequentially in the
// given order (concurrent=false) or all overlapping (concurrent=true).
func runTuple(s *vsched.Sched, st pairState, idx []int, concurrent bool) *pairRun {
	s.Frozen = true
	cfg := st.cfg
	cfg.Prop = "PAIRS"
	w := newPoolWorld(s, cfg)
	w.pairCalls = append([]*call{}, w.calls...)
	if !concurrent {
		// sequential baselines take default environment answers throughout
		defer func() { s.Frozen = false }()
	} else {
		s.Frozen = false
	}
	r := &pairRun{}
	if w.poisoned {
		r.broken = "setup"
		return r
	}
	ops := st.ops(w)
	for _, ref := range w.gb.scRefs {
		w.pairRefs = append(w.pairRefs, ref)
	}
	var ths []*vsched.Thread
	var names []string
	resolved := ""
	// bindings observed whenever an operation of the tuple returns (and at the end): a key that is
	// bound must stay on its channel unless the tuple unbinds it (C01: "a BIND for an already-bound
	// key does not move it"); the cooperative scheduler runs one thread at a time, so the harness may
	// read the map directly
	var snaps []map[string]*subConnRef
	snap := func() {
		m := map[string]*subConnRef{}
		for k, sc := range w.gb.affinityMap {
			if ref := w.gb.scRefs[sc]; ref != nil {
				m[k] = ref
			}
		}
		snaps = append(snaps, m)
	}
	unbinds := false
	for _, i := range idx {
		o := ops[i]
		if strings.HasPrefix(o.name, "unbind") {
			unbinds = true
		}
		ths = append(ths, s.Go(o.name, func() { o.fn(w, &r.results); snap() }))
		names = append(names, o.name)
		if o.name == "resolve-a2" {
			resolved = "a2"
		}
		if !concurrent {
			s.WaitQuiescent()
		}
	}
	s.WaitQuiescent()
	var blocked []string
	for i, th := range ths {
		switch {
		case th.PanicVal != nil:
			r.broken = fmt.Sprintf("panic in %s: %v", names[i], th.PanicVal)
		case th.Livelock:
			r.broken = "spin in " + names[i]
		case !th.Done():
			blocked = append(blocked, names[i])
			if names[i] == "resolve-a2" {
				resolved = ""
			}
		}
	}
	sort.Strings(blocked)
	if r.broken == "" {
		open := 0
		for _, c := range w.pairCalls {
			if c.sc != nil {
				open++
			}
		}
		open += w.pairPlaced - w.pairCompleted
		r.bad, r.keys = w.invariants(open, resolved, blocked)
		snap()
		if !unbinds {
			home := map[string]*subConnRef{}
			for _, m := range snaps {
				for k, ref := range m {
					if h, ok := home[k]; ok && h != ref {
						r.bad["C01"] = append(r.bad["C01"], fmt.Sprintf("bound key %s moved from %v to %v without an UNBIND", k, h.subConn, ref.subConn))
					}
					if _, ok := home[k]; !ok {
						home[k] = ref
					}
				}
			}
			sort.Strings(r.bad["C01"])
			if len(r.bad["C01"]) == 0 {
				delete(r.bad, "C01")
			}
		}
		var cnt []int
		for _, ref := range w.gb.scRefs {
			cnt = append(cnt, int(ref.streamsCnt))
		}
		sort.Ints(cnt)
		r.counts = fmt.Sprint(cnt)
	}
	return r
}

func permutations(idx []int) [][]int {
	if len(idx) <= 1 {
		return [][]int{append([]int{}, idx...)}
	}
	var out [][]int
	for i := range idx {
		rest := append(append([]int{}, idx[:i]...), idx[i+1:]...)
		for _, p := range permutations(rest) {
			out = append(out, append([]int{idx[i]}, p...))
		}
	}
	return out
}

func tuples(n, k int) [][]int {
	var out [][]int
	var rec func(start int, cur []int)
	rec = func(start int, cur []int) {
		if len(cur) == k {
			out = append(out, append([]int{}, cur...))
			return
		}
		for i := start; i < n; i++ {
			rec(i+1, append(cur, i))
		}
	}
	rec(0, nil)
	return out
}

// runPairs explores every pair (and, with triples, every triple) of operations of every prepared state.
func runPairs(c *vsched.RunCtx, race bool) {
	// the tuples get at most 40% of the time left to the check, so that on an overloaded machine the
	// other explorations of the same check are not starved (a cap is reported as such)
	deadline := c.Deadline
	if !deadline.IsZero() && !race {
		deadline = time.Now().Add(time.Until(c.Deadline) * 2 / 5)
	}
	pre := 2
	if c.Thorough() {
		pre = 3
	}
	unit := 0
	for _, st := range pairStates() {
		var opNames []string
		var opPure []bool
		vsched.Run(vsched.Opts{}, func(s *vsched.Sched) {
			s.Frozen = true
			w := newPoolWorld(s, st.cfg)
			w.pairCalls = append([]*call{}, w.calls...)
			for _, o := range st.ops(w) {
				opNames = append(opNames, o.name)
				opPure = append(opPure, o.pure)
			}
		})
		all := tuples(len(opNames), 2)
		if !race || c.Thorough() {
			all = append(all, tuples(len(opNames), 3)...)
		}
		for _, idx := range all {
			idx := idx
			unit++
			if unit%c.NShards != c.Shard && c.Replay == nil {
				continue
			}
			var seq []*pairRun
			brokenSeq := false
			for _, perm := range permutations(idx) {
				perm := perm
				var r *pairRun
				vsched.Run(vsched.Opts{}, func(s *vsched.Sched) { r = runTuple(s, st, perm, false) })
				if r.broken != "" {
					brokenSeq = true // a sequential crash is the business of the history checks
				}
				seq = append(seq, r)
			}
			if brokenSeq {
				continue
			}
			var nm []string
			for _, i := range idx {
				nm = append(nm, opNames[i])
			}
			pairName := strings.Join(nm, " || ")
			cfgName := st.name + ": " + pairName
			allPure := true
			for _, i := range idx {
				if !opPure[i] {
					allPure = false
				}
			}
			seqCounts := map[string]bool{}
			var seqCountList []string
			for _, r := range seq {
				if !seqCounts[r.counts] {
					seqCounts[r.counts] = true
					seqCountList = append(seqCountList, r.counts)
				}
			}
			seqKeys := map[string]bool{}
			var seqKeyList []string
			for _, r := range seq {
				if !seqKeys[r.keys] {
					seqKeys[r.keys] = true
					seqKeyList = append(seqKeyList, "{"+r.keys+"}")
				}
			}
			body := func(s *vsched.Sched) *vsched.ExecOutcome {
				r := runTuple(s, st, idx, true)
				out := &vsched.ExecOutcome{Nontrivial: true}
				if r.broken != "" {
					out.Outcome = "broken: " + r.broken
					out.StateKey = out.Outcome
					prop, rule := "C05", "C05.PANIC"
					if strings.HasPrefix(r.broken, "spin") {
						prop, rule = "C06", "C06.SPIN"
					}
					out.Violations = append(out.Violations, vsched.Violation{Property: prop, Rule: rule,
						Sig: fmt.Sprintf("%s [pairs %s] %s concurrently: %s", rule, st.name, pairName, strings.SplitN(r.broken, "[", 2)[0]), Msg: r.broken})
					return out
				}
				var props []string
				for p := range r.bad {
					props = append(props, p)
				}
				sort.Strings(props)
				var all []string
				for _, p := range props {
					all = append(all, p+": "+strings.Join(r.bad[p], "; "))
					out.Violations = append(out.Violations, vsched.Violation{Property: p, Rule: p + ".PAIR",
						Sig: fmt.Sprintf("%s.PAIR [pairs %s] %s: %s", p, st.name, pairName, strings.SplitN(r.bad[p][0], ":", 2)[0]),
						Msg: strings.Join(r.bad[p], "; ")})
				}
				if !seqKeys[r.keys] {
					out.Violations = append(out.Violations, vsched.Violation{Property: "C01", Rule: "C01.PAIR",
						Sig: fmt.Sprintf("C01.PAIR [pairs %s] %s: set of bound keys matches no sequential order", st.name, pairName),
						Msg: fmt.Sprintf("bound keys after the overlap: {%s}; after the sequential orders: %s", r.keys, strings.Join(seqKeyList, " "))})
				}
				if allPure && !seqCounts[r.counts] {
					pp, what := "C02", "a pick was placed on a channel that was not least loaded"
					if st.placeProp != "" {
						pp, what = st.placeProp, "two BIND calls were handed the same round-robin slot"
					}
					out.Violations = append(out.Violations, vsched.Violation{Property: pp, Rule: pp + ".PLACE",
						Sig: fmt.Sprintf("%s.PLACE [pairs %s] %s: overlapping picks leave stream counts no sequential order gives", pp, st.name, pairName),
						Msg: fmt.Sprintf("per-channel stream counts after the overlap: %s; after the sequential orders: %s (%s)", r.counts, strings.Join(seqCountList, " "), what)})
				}
				all = append(all, "keys="+r.keys, "counts="+r.counts)
				out.Outcome = strings.Join(all, " # ")
				out.StateKey = out.Outcome
				return out
			}
			if c.Replay != nil {
				if (c.Replay.Harness == "pairs" || c.Replay.Harness == "pairs+racy") && c.Replay.Config == cfgName {
					ro := vsched.ExploreOpts{Race: true}
					if c.Replay.Harness == "pairs+racy" {
						// recompute the racy access sites of this tuple, then replay with them as scheduling points
						p1 := vsched.Explore(vsched.ExploreOpts{Name: "pairs", Config: cfgName, PreemptBound: pre, DevBound: 1, Race: true}, body)
						ro.YieldSites = p1.RaceSites
					}
					out, s := vsched.RunOnce(ro, c.Replay.Choices, true, body)
					rr := &vsched.ReplayResult{Trace: s.Events}
					for _, v := range out.Violations {
						if v.Sig == c.Replay.Sig {
							rr.Reproduced, rr.Msg = true, v.Msg
						}
					}
					for sig := range s.Races {
						if "race: "+sig == c.Replay.Sig {
							rr.Reproduced, rr.Msg = true, sig
						}
					}
					c.SetReplay(rr)
				}
				continue
			}
			// Race detection is always on (it only sees something in a build with access hooks): in the
			// race check the races are the verdict; in a property check they select the accesses that
			// become scheduling points of a second exploration, because a program with a data race has
			// behaviours that interleavings at synchronisation operations alone never show.
			res := vsched.Explore(vsched.ExploreOpts{Name: "pairs", Config: cfgName, PreemptBound: pre, DevBound: 1, Race: true, Deadline: deadline}, body)
			c.Add(res)
			if !race && len(res.RaceSites) > 0 {
				res2 := vsched.Explore(vsched.ExploreOpts{Name: "pairs+racy", Config: cfgName, PreemptBound: 2, DevBound: 1, Race: true, YieldSites: res.RaceSites, Deadline: deadline}, body)
				c.Add(res2)
			}
		}
	}
}

// properties that have a verdict in the pair harness
var pairProps = map[string]bool{"C01": true, "C02": true, "C03": true, "C04": true, "C05": true, "C06": true, "C07": true, "C08": true, "C09": true, "C20": true}

func init() {
	extraChecks["PAIRS"] = func(c *vsched.RunCtx) { runPairs(c, false) }
}
