//go:build verif && go1.18

package grpcgcp

import (
	"fmt"
	"reflect"
	"strings"
	"time"
	"unicode"

	pb "github.com/GoogleCloudPlatform/grpc-gcp-go/grpcgcp/grpc_gcp"

	"verif/engine/vsched"
)

func init() {
	extraChecks["C11"] = checkC11
}

// ---- shape grammar: T ::= string | int | bool | *T | []T | interface{T} | map[string]T | struct{Key T; Name string} ----

type shape struct {
	kind  string // string int bool ptr slice iface map struct
	child *shape
}

func (s *shape) String() string {
	switch s.kind {
	case "ptr":
		return "*" + s.child.String()
	case "slice":
		return "[]" + s.child.String()
	case "iface":
		return "any(" + s.child.String() + ")"
	case "map":
		return "map[string]" + s.child.String()
	case "struct":
		return "struct{Key " + s.child.String() + "; Name string}"
	case "struct2":
		return "struct{Pad int; Name string; Key " + s.child.String() + "}"
	case "nstring":
		return "Name(string)"
	case "nstrs":
		return "Names([]string)"
	}
	return s.kind
}

// named types: a string type and a slice-of-string type with their own names (generated code and
// hand-written request types use both)
type c11Name string
type c11Names []string

func shapes(maxCons int) []*shape {
	leaves := []*shape{{kind: "string"}, {kind: "int"}, {kind: "bool"}, {kind: "nstring"}, {kind: "nstrs"}}
	level := leaves
	all := append([]*shape{}, leaves...)
	for d := 1; d <= maxCons; d++ {
		var next []*shape
		for _, c := range level {
			for _, k := range []string{"ptr", "slice", "iface", "map", "struct", "struct2"} {
				next = append(next, &shape{kind: k, child: c})
			}
		}
		all = append(all, next...)
		level = next
	}
	return all
}

var anyType = reflect.TypeOf((*interface{})(nil)).Elem()

func (s *shape) typ() reflect.Type {
	switch s.kind {
	case "string":
		return reflect.TypeOf("")
	case "int":
		return reflect.TypeOf(0)
	case "bool":
		return reflect.TypeOf(true)
	case "nstring":
		return reflect.TypeOf(c11Name(""))
	case "nstrs":
		return reflect.TypeOf(c11Names(nil))
	case "ptr":
		return reflect.PtrTo(s.child.typ())
	case "slice":
		return reflect.SliceOf(s.child.typ())
	case "iface":
		return anyType
	case "map":
		return reflect.MapOf(reflect.TypeOf(""), s.child.typ())
	case "struct":
		return reflect.StructOf([]reflect.StructField{
			{Name: "Key", Type: s.child.typ()},
			{Name: "Name", Type: reflect.TypeOf("")},
		})
	case "struct2":
		// same field names at other indexes (a lookup cached per name would go wrong)
		return reflect.StructOf([]reflect.StructField{
			{Name: "Pad", Type: reflect.TypeOf(0)},
			{Name: "Name", Type: reflect.TypeOf("")},
			{Name: "Key", Type: s.child.typ()},
		})
	}
	panic("shape")
}

// values of the shape's static type, simplest first
func (s *shape) values() []reflect.Value {
	t := s.typ()
	switch s.kind {
	case "string":
		return []reflect.Value{reflect.ValueOf("a"), reflect.ValueOf(""), reflect.ValueOf("b")}
	case "int":
		return []reflect.Value{reflect.ValueOf(0), reflect.ValueOf(7)}
	case "bool":
		return []reflect.Value{reflect.ValueOf(true)}
	case "nstring":
		return []reflect.Value{reflect.ValueOf(c11Name("a")), reflect.ValueOf(c11Name("")), reflect.ValueOf(c11Name("b"))}
	case "nstrs":
		return []reflect.Value{reflect.ValueOf(c11Names{"a"}), reflect.ValueOf(c11Names{}), reflect.ValueOf(c11Names{"a", "b"}), reflect.ValueOf(c11Names(nil)), reflect.ValueOf(c11Names{"a", "a"}), reflect.ValueOf(c11Names{"a", "b", "a"})}
	}
	cv := s.child.values()
	first := func(n int) []reflect.Value {
		if len(cv) < n {
			return cv
		}
		return cv[:n]
	}
	var out []reflect.Value
	switch s.kind {
	case "ptr":
		out = append(out, reflect.Zero(t))
		for _, v := range first(3) {
			p := reflect.New(s.child.typ())
			p.Elem().Set(v)
			out = append(out, p)
		}
	case "slice":
		out = append(out, reflect.MakeSlice(t, 0, 0))
		f := first(3)
		if len(f) > 0 {
			out = append(out, reflect.Append(reflect.MakeSlice(t, 0, 1), f[0]))
		}
		if len(f) > 0 {
			// the same value twice (and, below, again after another one): every element counts
			out = append(out, reflect.Append(reflect.MakeSlice(t, 0, 2), f[0], f[0]))
		}
		if len(f) > 1 {
			out = append(out, reflect.Append(reflect.MakeSlice(t, 0, 3), f[0], f[1], f[0]))
			out = append(out, reflect.Append(reflect.MakeSlice(t, 0, 2), f[0], f[1]))
			out = append(out, reflect.Append(reflect.MakeSlice(t, 0, 2), f[1], f[0]))
		}
		if len(f) > 2 {
			out = append(out, reflect.Append(reflect.MakeSlice(t, 0, 2), f[0], f[2]))
		}
		out = append(out, reflect.Zero(t)) // nil slice
	case "iface":
		out = append(out, reflect.Zero(t))
		for _, v := range first(3) {
			x := reflect.New(t).Elem()
			x.Set(v)
			out = append(out, x)
		}
	case "map":
		out = append(out, reflect.Zero(t))
		for _, v := range first(1) {
			m := reflect.MakeMap(t)
			m.SetMapIndex(reflect.ValueOf("x"), v)
			out = append(out, m)
		}
	case "struct":
		for _, v := range first(4) {
			x := reflect.New(t).Elem()
			x.Field(0).Set(v)
			x.Field(1).SetString("n")
			out = append(out, x)
		}
	case "struct2":
		for _, v := range first(3) {
			x := reflect.New(t).Elem()
			x.Field(2).Set(v)
			x.Field(1).SetString("n")
			out = append(out, x)
		}
	}
	return out
}

// ---- independent reference, written from the property statement ----

type refKeys struct {
	keys     []string
	err      bool
	dontcare bool
	fanout   bool
}

func upperFirst(s string) string {
	if s == "" {
		return s
	}
	r := []rune(s)
	r[0] = unicode.ToUpper(r[0])
	return string(r)
}

// pathValidForType: can the path be followed through values of type t at all?
// (used only to decide whether an empty repeated field makes the result
// unspecified)
func pathValidForType(t reflect.Type, path []string) (valid, known bool) {
	for {
		switch t.Kind() {
		case reflect.Ptr:
			t = t.Elem()
			continue
		case reflect.Interface:
			return false, false
		}
		break
	}
	if len(path) == 0 {
		return t.Kind() == reflect.String, true
	}
	if t.Kind() != reflect.Struct {
		return false, true
	}
	f, ok := t.FieldByName(upperFirst(path[0]))
	if !ok || path[0] == "" {
		return false, true
	}
	ft := f.Type
	if ft.Kind() == reflect.Slice {
		ft = ft.Elem()
	}
	return pathValidForType(ft, path[1:])
}

func refExtract(v reflect.Value, path []string) refKeys {
	if !v.IsValid() {
		return refKeys{err: true}
	}
	switch v.Kind() {
	case reflect.Ptr:
		if v.IsNil() {
			return refKeys{err: true}
		}
		v = v.Elem()
		if v.Kind() == reflect.Ptr || v.Kind() == reflect.Interface {
			return refKeys{dontcare: true} // multi-level indirection: not specified
		}
	case reflect.Interface:
		if v.IsNil() {
			return refKeys{err: true}
		}
		v = v.Elem()
		if k := v.Kind(); k != reflect.Struct && k != reflect.String && k != reflect.Int && k != reflect.Bool {
			return refKeys{dontcare: true} // interface holding a pointer/slice/map/interface: not specified
		}
	}
	if len(path) == 0 {
		if v.Kind() == reflect.String {
			return refKeys{keys: []string{v.String()}}
		}
		return refKeys{err: true}
	}
	if v.Kind() != reflect.Struct {
		return refKeys{err: true}
	}
	if path[0] == "" {
		return refKeys{err: true}
	}
	if _, ok := v.Type().FieldByName(upperFirst(path[0])); !ok {
		return refKeys{err: true}
	}
	f := v.FieldByName(upperFirst(path[0]))
	if f.Kind() != reflect.Slice {
		return refExtract(f, path[1:])
	}
	// repeated field: fan out
	if f.Type().Elem().Kind() == reflect.Slice {
		return refKeys{dontcare: true} // nested repetition: not specified
	}
	if f.Len() == 0 {
		if valid, known := pathValidForType(f.Type().Elem(), path[1:]); !known || !valid {
			return refKeys{dontcare: true} // empty repeated field on an invalid path: not specified
		}
		return refKeys{}
	}
	out := refKeys{fanout: true}
	for i := 0; i < f.Len(); i++ {
		r := refExtract(f.Index(i), path[1:])
		if r.dontcare {
			return refKeys{dontcare: true}
		}
		if r.err {
			return refKeys{err: true}
		}
		out.keys = append(out.keys, r.keys...)
	}
	return out
}

func locators(maxSeg int) []string {
	segs := []string{"key", "Key", "name", "x", ""}
	var out []string
	var rec func(cur []string)
	rec = func(cur []string) {
		if len(cur) > 0 {
			out = append(out, strings.Join(cur, "."))
		}
		if len(cur) == maxSeg {
			return
		}
		for _, s := range segs {
			rec(append(append([]string{}, cur...), s))
		}
	}
	rec(nil)
	return out
}

type c11case struct {
	desc string
	msg  interface{}
}

func protoCases() ([]c11case, []string) {
	aff := func(k string) *pb.AffinityConfig {
		return &pb.AffinityConfig{Command: pb.AffinityConfig_BOUND, AffinityKey: k}
	}
	msgs := []c11case{
		{"ApiConfig{}", &pb.ApiConfig{}},
		{"(*ApiConfig)(nil)", (*pb.ApiConfig)(nil)},
		{"ApiConfig{pool}", &pb.ApiConfig{ChannelPool: &pb.ChannelPoolConfig{MaxSize: 3}}},
		{"ApiConfig{method[a,b]/k1; method[c]/k2}", &pb.ApiConfig{Method: []*pb.MethodConfig{{Name: []string{"a", "b"}, Affinity: aff("k1")}, {Name: []string{"c"}, Affinity: aff("k2")}}}},
		{"ApiConfig{method[a]/nil-affinity}", &pb.ApiConfig{Method: []*pb.MethodConfig{{Name: []string{"a"}}}}},
		{"ApiConfig{method[nil-entry]}", &pb.ApiConfig{Method: []*pb.MethodConfig{nil}}},
		{"ApiConfig{method[]/k1}", &pb.ApiConfig{Method: []*pb.MethodConfig{{Affinity: aff("k1")}}}},
		{"MethodConfig{[a,b]}", &pb.MethodConfig{Name: []string{"a", "b"}}},
		{"AffinityConfig{k}", aff("k")},
		{"untyped nil", nil},
		{"string", "plain"},
		{"int", 7},
	}
	locs := []string{"method.name", "method.affinity.affinityKey", "method.affinity", "method", "channelPool.maxSize", "channelPool", "name", "affinityKey",
		"affinity.affinityKey", "command", "method.affinity.command", "state", "sizeCache", "unknownFields", "method.name.x", "", ".", "method..name", "Method.Name", "METHOD.name"}
	return msgs, locs
}

func checkC11(c *vsched.RunCtx) { runC11(c, "C11") }

// c11Ptr: a pointer type that can point to itself
type c11Ptr *c11Ptr

type c11Self struct {
	Key  interface{}
	Name string
}

// cyclicCases: values whose pointer / interface chain comes back to itself
func cyclicCases() []c11case {
	var x interface{}
	x = &x
	var p c11Ptr
	p = c11Ptr(&p)
	m := &c11Self{Name: "n"}
	m.Key = m
	var y interface{}
	m2 := &c11Self{Name: "n"}
	y = &y
	m2.Key = y
	return []c11case{{"x := interface{}(&x)", x}, {"p := c11Ptr(&p)", p}, {"message whose Key field holds the message itself", m}, {"message whose Key field holds y := interface{}(&y)", m2}}
}

// runC11 evaluates the enumeration for C11 (totality and agreement with the reference) or, with
// prop "C05", for the totality clause of C05 ("every request/response message shape and key
// locator ... never a crash") only.
func runC11(c *vsched.RunCtx, prop string) {
	maxCons, maxSeg := 3, 3
	if c.Thorough() {
		maxCons = 4
	}
	st := vsched.Stats{Name: "key-extraction", Kind: "inputs", Outcomes: map[string]int{}}
	st.Bound = fmt.Sprintf("all message shapes with <=%d type constructors x small value menu x all locators with <=%d segments over {key,Key,name,x,\"\"}; plus generated ApiConfig/MethodConfig/AffinityConfig messages x 20 locators", maxCons, maxSeg)
	locs := locators(maxSeg)
	nontrivial := map[string]bool{}
	viol := map[string]*vsched.Violation{}
	report := func(rule, cause, msg string) {
		sig := rule + " " + cause
		if v, ok := viol[sig]; ok {
			v.Count++
			return
		}
		if prop == "C05" {
			if rule != "C11.TOTAL" {
				return
			}
			rule, sig = "C05.PANIC", "C05.PANIC key extraction: "+cause
		}
		viol[sig] = &vsched.Violation{Property: prop, Rule: rule, Sig: sig, Msg: msg, Harness: "key-extraction", Count: 1}
	}
	hung := 0
	evalOne := func(desc string, msg interface{}, loc string) {
		st.Execs++
		var keys []string
		var err error
		panicked := interface{}(nil)
		if hung >= 2 {
			return // two evaluations are already spinning: stop feeding inputs to a function that does not return
		}
		done := make(chan struct{})
		go func() {
			defer close(done)
			defer func() { panicked = recover() }()
			keys, err = getAffinityKeysFromMessage(loc, msg)
		}()
		select {
		case <-done:
		case <-time.After(30 * time.Second):
			// a call that takes microseconds did not return in 30 s: not a timing verdict
			hung++
			report("C11.TOTAL", "does not return", fmt.Sprintf("getAffinityKeysFromMessage(%q, %s) has not returned after 30 s", loc, desc))
			st.Outcomes["no-return"]++
			return
		}
		if panicked != nil {
			report("C11.TOTAL", "panic: "+strings.SplitN(fmt.Sprint(panicked), "[", 2)[0], fmt.Sprintf("getAffinityKeysFromMessage(%q, %s) panicked: %v", loc, desc, panicked))
			st.Outcomes["panic"]++
			return
		}
		ref := refExtract(reflect.ValueOf(msg), strings.Split(loc, "."))
		switch {
		case ref.dontcare:
			st.Outcomes["unspecified"]++
			return
		case ref.err != (err != nil):
			if ref.err {
				report("C11.AGREE", "no error for an invalid path / nil / non-string leaf", fmt.Sprintf("getAffinityKeysFromMessage(%q, %s) = %v, nil; the statement requires an error", loc, desc, keys))
			} else {
				report("C11.AGREE", "error for a valid path", fmt.Sprintf("getAffinityKeysFromMessage(%q, %s) failed with %v; expected keys %v", loc, desc, err, ref.keys))
			}
			return
		case err != nil:
			st.Outcomes["error"]++
			return
		}
		if strings.Join(keys, "\x00") != strings.Join(ref.keys, "\x00") || len(keys) != len(ref.keys) {
			report("C11.AGREE", "wrong keys or order", fmt.Sprintf("getAffinityKeysFromMessage(%q, %s) = %q, expected %q", loc, desc, keys, ref.keys))
			return
		}
		st.Outcomes[fmt.Sprintf("keys=%d", len(keys))]++
		if len(keys) > 0 || ref.fanout {
			nontrivial[desc+"|"+loc] = true
			if len(st.Samples) < 4 && (len(keys) > 1 || len(st.Samples) == 0) {
				st.Samples = append(st.Samples, map[string]interface{}{"message": desc, "locator": loc, "keys": keys})
			}
		}
	}
	all := shapes(maxCons)
	for i, sh := range all {
		if i%c.NShards != c.Shard {
			continue
		}
		vals := sh.values()
		for vi, v := range vals {
			desc := fmt.Sprintf("%s #%d = %v", sh, vi, describe(v))
			var msg interface{}
			if v.Kind() == reflect.Interface {
				if v.IsNil() {
					msg = nil
				} else {
					msg = v.Elem().Interface()
				}
			} else {
				msg = v.Interface()
			}
			for _, loc := range locs {
				evalOne(desc, msg, loc)
			}
		}
	}
	if c.Shard == 0 {
		for _, m := range cyclicCases() {
			for _, l := range []string{"key", "key.key", "name", "x", ""} {
				evalOne(m.desc, m.msg, l)
			}
		}
	}
	if c.Shard == 0 {
		msgs, plocs := protoCases()
		for _, m := range msgs {
			for _, l := range append(plocs, locs[:30]...) {
				evalOne(m.desc, m.msg, l)
			}
		}
	}
	st.States = len(all)
	st.Transitions = st.Execs
	st.Nontrivial = len(nontrivial)
	c.AddStats(st)
	for _, v := range viol {
		c.AddViolation(*v)
	}
	c.Assume("reference: upper-case the first letter of a segment to name the field; one pointer level per step; repeated fields fan out in index order",
		"not specified by the statement, totality only: multi-level pointers, interfaces holding pointers/slices/maps, nested slices, an empty repeated field on a path that is invalid further down")
}

func describe(v reflect.Value) string {
	s := fmt.Sprintf("%+v", safeInterface(v))
	if len(s) > 80 {
		s = s[:80]
	}
	return s
}

func safeInterface(v reflect.Value) interface{} {
	if !v.IsValid() {
		return nil
	}
	switch v.Kind() {
	case reflect.Ptr:
		if v.IsNil() {
			return "nil"
		}
		return fmt.Sprintf("&%v", safeInterface(v.Elem()))
	case reflect.Interface:
		if v.IsNil() {
			return "nil"
		}
		return safeInterface(v.Elem())
	}
	return v.Interface()
}
