//go:build verif && go1.18

package grpcgcp

import (
	"context"
	"errors"
	"fmt"
	"strings"

	"google.golang.org/grpc"
	"google.golang.org/grpc/metadata"

	"verif/engine/vctx"
	"verif/engine/vsched"
)

func init() {
	extraChecks["C12"] = checkC12
}

// ---- fake underlying stream ----

type fakeStream struct {
	log []string
	ctx context.Context
	// lazyHeaders: the server sends its headers only after it has seen the client's half-close (a
	// legitimate server): Header() on the underlying stream blocks until then
	lazyHeaders bool
	// failFirstSend: the first SendMsg on the underlying stream fails (the stream itself was created)
	failFirstSend bool
	sends         int
}

func (f *fakeStream) Header() (metadata.MD, error) {
	yield("fs.Header")
	if f.lazyHeaders {
		if s := vsched.S; s != nil && !s.Unwinding(s.Running()) {
			s.Yield(func() bool { return contains(f.log, "CloseSend") }, "fs.Header waits for the server's headers")
		}
	}
	f.log = append(f.log, "Header")
	return metadata.MD{"h": {"1"}}, nil
}
func (f *fakeStream) Trailer() metadata.MD {
	yield("fs.Trailer")
	f.log = append(f.log, "Trailer")
	return metadata.MD{"t": {"1"}}
}
func (f *fakeStream) CloseSend() error {
	yield("fs.CloseSend")
	f.log = append(f.log, "CloseSend")
	return nil
}
func (f *fakeStream) Context() context.Context {
	yield("fs.Context")
	f.log = append(f.log, "Context")
	return f.ctx
}

var errFirstSend = errors.New("fake: first send on the new stream fails")

func (f *fakeStream) SendMsg(m interface{}) error {
	yield("fs.SendMsg")
	f.log = append(f.log, "SendMsg:"+m.(*reqMsg).Key)
	f.sends++
	if f.failFirstSend && f.sends == 1 {
		return errFirstSend
	}
	return nil
}
func (f *fakeStream) RecvMsg(m interface{}) error {
	yield("fs.RecvMsg")
	f.log = append(f.log, "RecvMsg:"+m.(*otherMsg).Name)
	return nil
}

type streamScenario struct {
	Name     string
	FailOnce bool // the first creation attempt fails, the retry succeeds
	CreateOK bool
	Sends    int // 0, 1, or 3 (= send m1, send m2, CloseSend)
	Recvs    int
	Cancel   bool
	Probe    string // "", Header, Trailer, Context, CloseSend
	// PreCancel: the caller's context has already ended when the interceptor is called
	PreCancel bool
	// LazyHeaders: the underlying Header() blocks until the client has half-closed
	LazyHeaders bool
	// FirstSendFails: the stream is created, the first message cannot be sent on it
	FirstSendFails bool
}

var errCreate = errors.New("fake: stream creation fails")

type ctxKeyT int

func streamScenarios() []streamScenario {
	var out []streamScenario
	add := func(ok bool, sends, recvs int, cancel bool, probe string) {
		out = append(out, streamScenario{Name: fmt.Sprintf("create=%v sends=%d recvs=%d cancel=%v probe=%s", ok, sends, recvs, cancel, probe),
			CreateOK: ok, Sends: sends, Recvs: recvs, Cancel: cancel, Probe: probe})
	}
	add(true, 3, 1, false, "")
	add(true, 3, 2, false, "")
	out = append(out, streamScenario{Name: "create=fail-then-ok sends=3 recvs=1 cancel=false probe=", CreateOK: true, FailOnce: true, Sends: 3, Recvs: 1})
	add(false, 1, 1, false, "")
	add(false, 3, 2, false, "")
	add(true, 1, 1, true, "")
	add(true, 0, 1, true, "")
	add(true, 0, 2, true, "")
	add(true, 1, 2, true, "")
	add(true, 1, 1, false, "Header")
	add(false, 1, 0, false, "Header")
	add(true, 0, 0, true, "Header")
	for _, p := range []string{"Trailer", "Context", "CloseSend"} {
		add(true, 1, 0, false, p)
		add(true, 0, 0, false, p)
		add(true, 1, 1, true, p)
	}
	// the context is already over when the stream object is made: its watcher starts with nothing to wait for
	for _, x := range []streamScenario{{Sends: 1, Recvs: 1}, {Sends: 0, Recvs: 2}, {Sends: 0, Recvs: 0, Probe: "Header"}, {Sends: 3, Recvs: 0, Probe: "Trailer"}} {
		x.CreateOK, x.PreCancel = true, true
		x.Name = fmt.Sprintf("create=true sends=%d recvs=%d pre-cancelled probe=%s", x.Sends, x.Recvs, x.Probe)
		out = append(out, x)
	}
	// operations of several goroutines on a stream that already exists
	out = append(out, streamScenario{Name: "create=true sends=1 recvs=2 probe=CloseSend", CreateOK: true, Sends: 1, Recvs: 2, Probe: "CloseSend"})
	// the stream is created but its first SendMsg fails: the error goes to the sender unchanged, the
	// stream stays THE stream (receivers are delegated to it, no second creation)
	out = append(out, streamScenario{Name: "create=true first-send-fails sends=3 recvs=1", CreateOK: true, Sends: 3, Recvs: 1, FirstSendFails: true},
		streamScenario{Name: "create=true first-send-fails sends=1 recvs=0 probe=Header", CreateOK: true, Sends: 1, Probe: "Header", FirstSendFails: true})
	// the server answers only after the client's half-close: a Header() call parked since before the
	// creation must not keep the other operations from reaching the stream
	out = append(out, streamScenario{Name: "create=true sends=3 recvs=0 lazy-headers probe=Header", CreateOK: true, Sends: 3, Probe: "Header", LazyHeaders: true},
		streamScenario{Name: "create=true sends=3 recvs=1 lazy-headers probe=Header", CreateOK: true, Sends: 3, Recvs: 1, Probe: "Header", LazyHeaders: true})
	return out
}

type streamRun struct {
	sc            streamScenario
	fs            *fakeStream
	streamerCalls int
	streamerCtxOK bool
	firstMsg      string
	createdAt     int // number of streamer successes
	failures      int // number of failed creation attempts
	ctx           context.Context
	results       []string
	viol          []vsched.Violation
}

func (r *streamRun) violate(rule, cause, msg string) {
	r.viol = append(r.viol, vsched.Violation{Property: "C12", Rule: rule, Sig: rule + " " + cause, Msg: msg})
}

func streamBody(sc streamScenario) func(s *vsched.Sched) *vsched.ExecOutcome {
	return func(s *vsched.Sched) *vsched.ExecOutcome {
		r := &streamRun{sc: sc}
		type valKey struct{}
		// the caller's context already carries the interceptor context of ANOTHER
		// call (e.g. it was derived from another stream's Context()): the picker
		// must still see this call's first message
		base := context.WithValue(context.Background(), gcpKey, &gcpContext{reqMsg: &reqMsg{Key: "other-call"}, replyMsg: &replyMsg{}})
		base = context.WithValue(base, valKey{}, "caller-value")
		ctx, cancel := vctx.WithCancel(base)
		r.ctx = ctx
		desc := &grpc.StreamDesc{StreamName: "S", ClientStreams: true, ServerStreams: true}
		opt := grpc.EmptyCallOption{}
		streamer := func(c context.Context, d *grpc.StreamDesc, cc *grpc.ClientConn, method string, opts ...grpc.CallOption) (grpc.ClientStream, error) {
			yield("streamer")
			r.streamerCalls++
			if d != desc || method != "/svc/m" || len(opts) != 1 || cc != nil || c.Value(valKey{}) != "caller-value" {
				r.violate("C12.S2", "streamer called with altered arguments", fmt.Sprintf("desc=%v method=%q opts=%d", d == desc, method, len(opts)))
			}
			g, _ := c.Value(gcpKey).(*gcpContext)
			if g == nil || g.reqMsg == nil {
				r.violate("C12.S2", "first message not visible to the picker", "the context given to the streamer carries no request message")
			} else if m, ok := g.reqMsg.(*reqMsg); ok && r.streamerCalls == 1 {
				r.firstMsg = m.Key
			}
			if !sc.CreateOK || (sc.FailOnce && r.streamerCalls == 1) {
				r.failures++
				return nil, errCreate
			}
			r.createdAt++
			if r.createdAt > 1 {
				r.violate("C12.S2", "second underlying stream created after a success", fmt.Sprintf("streamer succeeded %d times", r.createdAt))
			}
			r.fs = &fakeStream{ctx: c, lazyHeaders: sc.LazyHeaders, failFirstSend: sc.FirstSendFails}
			return r.fs, nil
		}
		if sc.PreCancel {
			cancel()
		}
		cs, err := GCPStreamClientInterceptor(ctx, desc, nil, "/svc/m", streamer, opt)
		if err != nil || cs == nil {
			r.violate("C12.S2", "interceptor failed", fmt.Sprint(err))
			return &vsched.ExecOutcome{Outcome: "interceptor-error", Violations: r.viol}
		}
		if r.streamerCalls != 0 {
			r.violate("C12.S2", "stream created before the first SendMsg", "streamer called by the interceptor itself")
		}
		outcomeExists := func() bool { return r.createdAt > 0 || r.failures > 0 }
		var threads []*vsched.Thread
		var names []string
		spawn := func(name string, fn func()) {
			threads = append(threads, s.Go(name, fn))
			names = append(names, name)
		}
		sendRes := make([]string, 3)
		if sc.Sends > 0 {
			spawn("sender", func() {
				e := cs.SendMsg(&reqMsg{Key: "m1"})
				sendRes[0] = fmt.Sprint(e)
				if sc.Sends == 3 {
					e = cs.SendMsg(&reqMsg{Key: "m2"})
					sendRes[1] = fmt.Sprint(e)
					e = cs.CloseSend()
					sendRes[2] = fmt.Sprint(e)
				}
			})
		}
		recvRes := make([]string, sc.Recvs)
		for i := 0; i < sc.Recvs; i++ {
			i := i
			spawn(fmt.Sprintf("receiver%d", i), func() {
				createdBefore := r.createdAt > 0
				e := cs.RecvMsg(&otherMsg{Name: fmt.Sprintf("r%d", i)})
				if createdBefore && (r.fs == nil || !contains(r.fs.log, fmt.Sprintf("RecvMsg:r%d", i))) {
					r.violate("C12.S5", "RecvMsg on an already created stream did not reach the underlying stream", fmt.Sprintf("returned %v", e))
				}
				ok := outcomeExists() || ctx.Err() != nil
				if !ok {
					r.violate("C12.S3", "RecvMsg returned before the stream creation outcome exists", fmt.Sprintf("RecvMsg returned %v with no stream, no creation error and a live context", e))
				}
				recvRes[i] = fmt.Sprint(e)
				if e == nil && (r.fs == nil || !contains(r.fs.log, fmt.Sprintf("RecvMsg:r%d", i))) {
					r.violate("C12.S3", "RecvMsg succeeded without reaching the underlying stream", "")
				}
				if !sc.CreateOK && ctx.Err() == nil && e != errCreate {
					r.violate("C12.S3", "RecvMsg did not return the creation error", fmt.Sprintf("got %v", e))
				}
			})
		}
		if sc.Cancel {
			spawn("canceller", func() { cancel() })
		}
		probeRes := ""
		if sc.Probe != "" {
			spawn("prober", func() {
				switch sc.Probe {
				case "Header":
					_, e := cs.Header()
					if !(outcomeExists() || ctx.Err() != nil) {
						r.violate("C12.S3", "Header returned before the stream creation outcome exists", fmt.Sprint(e))
					}
					probeRes = fmt.Sprint(e)
				case "Trailer":
					cs.Trailer()
				case "Context":
					c := cs.Context()
					if c == nil || c.Value(valKey{}) != "caller-value" {
						r.violate("C12.S1", "stream context lost the caller's values", "")
					}
				case "CloseSend":
					createdBefore := r.createdAt > 0
					n0 := 0
					if r.fs != nil {
						n0 = countOf(r.fs.log, "CloseSend")
					}
					probeRes = fmt.Sprint(cs.CloseSend())
					if createdBefore && countOf(r.fs.log, "CloseSend") == n0 {
						r.violate("C12.S5", "CloseSend on an already created stream did not reach the underlying stream", "returned "+probeRes)
					}
				}
			})
		}
		s.WaitQuiescent()
		// ---- verdicts for this execution ----
		for i, th := range threads {
			if th.PanicVal != nil {
				r.violate("C12.S6", fmt.Sprintf("panic in %s (thread %s)", th.PanicSite, strings.TrimRight(names[i], "0123456789")), fmt.Sprintf("%v", th.PanicVal))
				continue
			}
			if th.Livelock {
				r.violate("C12.S4", "thread spins: "+names[i], "step budget exceeded")
				continue
			}
			if !th.Done() {
				waitingOK := !outcomeExists() && ctx.Err() == nil && (strings.HasPrefix(names[i], "receiver") || (names[i] == "prober" && sc.Probe == "Header"))
				if !waitingOK {
					why := "after the stream creation outcome exists (lost wake-up)"
					if !outcomeExists() {
						why = "after the context ended"
					}
					r.violate("C12.S4", fmt.Sprintf("%s still blocked %s", strings.TrimRight(names[i], "0123456789"), why), fmt.Sprintf("thread %s blocked at %s", names[i], th.Desc))
				}
			}
			if th.Done() && th.Held != 0 {
				r.violate("C12.S6", "lock left held by "+names[i], "")
			}
		}
		// streamer call count
		wantCalls := 1
		if sc.FailOnce {
			wantCalls = 2
		}
		if sc.CreateOK && sc.Sends > 0 && r.streamerCalls != wantCalls && allDone(threads) {
			r.violate("C12.S2", "streamer not called exactly once per needed creation", fmt.Sprintf("calls=%d want %d", r.streamerCalls, wantCalls))
		}
		if sc.Sends == 0 && r.streamerCalls != 0 {
			r.violate("C12.S2", "stream created without any SendMsg", fmt.Sprintf("calls=%d", r.streamerCalls))
		}
		if r.streamerCalls > 0 && r.firstMsg != "m1" {
			r.violate("C12.S2", "picker does not see the first message", "request message in the streamer context: "+r.firstMsg)
		}
		// S5: the sender's operations reach the stream unchanged and in order
		if sc.CreateOK && sc.Sends > 0 && r.fs != nil && allDone(threads) {
			var got []string
			for _, l := range r.fs.log {
				if strings.HasPrefix(l, "SendMsg:") || (l == "CloseSend" && sc.Probe != "CloseSend") {
					got = append(got, l)
				}
			}
			want := []string{"SendMsg:m1"}
			if sc.Sends == 3 {
				want = []string{"SendMsg:m1", "SendMsg:m2", "CloseSend"}
			}
			if sc.FailOnce {
				want = []string{"SendMsg:m2", "CloseSend"} // m1's SendMsg returned the creation error
			}
			if strings.Join(got, ",") != strings.Join(want, ",") {
				r.violate("C12.S5", "sends do not reach the underlying stream unchanged and in order", fmt.Sprintf("got %v want %v", got, want))
			}
			if !sc.FailOnce && !sc.FirstSendFails && sendRes[0] != "<nil>" {
				r.violate("C12.S5", "SendMsg result altered", sendRes[0])
			}
			if sc.FirstSendFails && sendRes[0] != errFirstSend.Error() {
				r.violate("C12.S5", "error of the first send on the created stream not returned unchanged", sendRes[0])
			}
			if sc.FailOnce && (sendRes[0] != errCreate.Error() || sendRes[1] != "<nil>") {
				r.violate("C12.S5", "SendMsg results altered (failed first creation, successful retry)", fmt.Sprint(sendRes))
			}
		}
		if !sc.CreateOK && sc.Sends > 0 && allDone(threads) && sendRes[0] != errCreate.Error() {
			r.violate("C12.S5", "creation error not returned by SendMsg", sendRes[0])
		}
		out := fmt.Sprintf("send=%v recv=%v probe=%s streamer=%d parked=%d", sendRes[:max(sc.Sends, 0)%4], recvRes, probeRes, r.streamerCalls, len(s.Alive()))
		return &vsched.ExecOutcome{Outcome: out, StateKey: out, Nontrivial: r.streamerCalls > 0 || sc.Cancel, Violations: r.viol}
	}
}

func countOf(l []string, x string) int {
	n := 0
	for _, e := range l {
		if e == x {
			n++
		}
	}
	return n
}

func max(a, b int) int {
	if a > b {
		return a
	}
	return b
}

func allDone(ths []*vsched.Thread) bool {
	for _, t := range ths {
		if !t.Done() {
			return false
		}
	}
	return true
}

func contains(l []string, s string) bool {
	for _, x := range l {
		if x == s {
			return true
		}
	}
	return false
}

// unary interceptor: exhaustive small-scope enumeration (no concurrency)
func checkUnary(c *vsched.RunCtx) vsched.Stats {
	st := vsched.Stats{Name: "unary-interceptor", Kind: "inputs", Outcomes: map[string]int{}}
	type valKey struct{}
	methods := []string{"/svc/a", "", "/svc/b"}
	invErrs := []error{nil, errors.New("invoker failed")}
	optLists := [][]grpc.CallOption{nil, {grpc.EmptyCallOption{}}, {grpc.EmptyCallOption{}, grpc.EmptyCallOption{}}}
	reqs := []interface{}{&reqMsg{Key: "k"}, nil, "not a message"}
	replies := []interface{}{&replyMsg{}, nil}
	ctxVals := []interface{}{nil, "v", "stale-gcp-context"}
	distinct := map[string]bool{}
	for _, m := range methods {
		for _, ie := range invErrs {
			for _, ol := range optLists {
				for _, rq := range reqs {
					for _, rp := range replies {
						for _, cv := range ctxVals {
							st.Execs++
							ctx := context.Background()
							if cv == "stale-gcp-context" {
								// derived from another intercepted call
								ctx = context.WithValue(ctx, gcpKey, &gcpContext{reqMsg: &reqMsg{Key: "other-call"}, replyMsg: &replyMsg{}})
							}
							if cv != nil {
								ctx = context.WithValue(ctx, valKey{}, cv)
							}
							called := 0
							bad := ""
							inv := func(ictx context.Context, method string, req, reply interface{}, cc *grpc.ClientConn, opts ...grpc.CallOption) error {
								called++
								if method != m || req != rq || reply != rp || cc != nil || len(opts) != len(ol) {
									bad = "arguments altered"
								}
								if ictx.Value(valKey{}) != cv {
									bad = "caller's context values lost"
								}
								g, _ := ictx.Value(gcpKey).(*gcpContext)
								if g == nil || g.reqMsg != rq || g.replyMsg != rp {
									bad = "request/reply objects not handed to the picker"
								}
								return ie
							}
							var err error
							func() {
								defer func() {
									if r := recover(); r != nil {
										bad = fmt.Sprint("panic: ", r)
									}
								}()
								err = GCPUnaryClientInterceptor(ctx, m, rq, rp, nil, inv, ol...)
							}()
							if bad == "" && called != 1 {
								bad = fmt.Sprintf("invoker called %d times", called)
							}
							if bad == "" && err != ie {
								bad = "error altered"
							}
							if bad != "" {
								c.AddViolation(vsched.Violation{Property: "C12", Rule: "C12.S1", Sig: "C12.S1 unary: " + bad, Msg: fmt.Sprintf("method=%q req=%v reply=%v: %s", m, rq, rp, bad), Harness: "unary-interceptor"})
							}
							k := fmt.Sprintf("%q|%v|%d|%T|%T|%v", m, ie != nil, len(ol), rq, rp, cv)
							distinct[k] = true
						}
					}
				}
			}
		}
	}
	st.States, st.Nontrivial, st.Transitions = len(distinct), len(distinct), st.Execs
	st.Bound = "all combinations of 3 methods x 2 invoker outcomes x 3 option lists x 3 requests x 2 replies x 2 context values"
	st.Samples = []interface{}{map[string]interface{}{"method": "/svc/a", "invoker_error": false, "opts": 1, "req": "*reqMsg", "reply": "*replyMsg", "ctx_value": "v"}}
	return st
}

func checkC12(c *vsched.RunCtx) {
	pre, dev := 2, 1
	if c.Thorough() {
		pre, dev = 3, 2
	}
	scs := streamScenarios()
	if c.Replay != nil && c.Replay.Harness == "unary-interceptor" {
		checkUnary(c) // violations are matched by signature in vsched.Main
		return
	}
	if c.Replay != nil {
		for _, sc := range scs {
			if sc.Name == c.Replay.Config {
				out, s := vsched.RunOnce(vsched.ExploreOpts{}, c.Replay.Choices, true, streamBody(sc))
				rr := &vsched.ReplayResult{Trace: s.Events}
				for _, v := range out.Violations {
					if v.Sig == c.Replay.Sig {
						rr.Reproduced, rr.Msg = true, v.Msg
					}
				}
				c.SetReplay(rr)
			}
		}
		return
	}
	if c.Shard == 0 {
		c.AddStats(checkUnary(c))
	}
	for _, sc := range scs {
		if !c.Mine() {
			continue
		}
		res := vsched.Explore(vsched.ExploreOpts{Name: "stream", Config: sc.Name, PreemptBound: pre, DevBound: dev, Deadline: c.Deadline}, streamBody(sc))
		c.Add(res)
	}
	c.Assume("fake grpc.Streamer / ClientStream; scheduling points at every lock, condition, channel and fake-stream operation; contexts are scheduler-visible (vctx)",
		"threads: one sender (SendMsg m1[, m2, CloseSend]), up to two receivers, optional canceller, optional prober; preemption/deviation bounds as reported")
}
