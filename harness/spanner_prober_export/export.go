//go:build verif

package prober

import "time"

// Verification-only exports of unexported helpers (injected through the build overlay; never part of /repo).
var VBackoff = backoff
var VParseT4T7Latency = parseT4T7Latency

func VProbeInterval(qps float64) time.Duration { return (&Prober{qps: qps}).probeInterval() }

func VGeneratePayload(size int) ([]byte, []byte, error) { return generatePayload(size) }

// VURIs returns the resource names built from the options.
func VURIs(opt ProberOptions) (project, instance, instanceConfig, database string) {
	return opt.projectURI(), opt.instanceURI(), opt.instanceConfigURI(), opt.databaseURI()
}
