//go:build verif && go1.18

package main

import (
	"bytes"
	"crypto/sha256"
	"fmt"
	"math"
	"strconv"
	"strings"
	"testing"
	"time"

	"google.golang.org/grpc/metadata"

	proberlib "spanner_prober/prober"

	"verif/engine/vsched"
)

func TestVerif(t *testing.T) {
	vsched.Main(map[string]vsched.CheckFunc{"C18": checkC18})
}

type c18 struct {
	viol map[string]*vsched.Violation
}

func (x *c18) report(rule, cause, msg string) {
	sig := rule + " " + cause
	if v, ok := x.viol[sig]; ok {
		v.Count++
		return
	}
	x.viol[sig] = &vsched.Violation{Property: "C18", Rule: rule, Sig: sig, Msg: msg, Harness: "prober-helpers", Count: 1}
}

func guard(f func()) (p interface{}) {
	defer func() { p = recover() }()
	f()
	return nil
}

func (x *c18) backoff(c *vsched.RunCtx) vsched.Stats {
	st := vsched.Stats{Name: "backoff", Kind: "inputs", Outcomes: map[string]int{}}
	ds := []time.Duration{0, 1, time.Millisecond, 200 * time.Millisecond, 5 * time.Second, time.Hour, 1 << 62, math.MaxInt64}
	var rs []int
	rs = append(rs, -1)
	for i := 0; i <= 80; i++ {
		rs = append(rs, i)
	}
	rs = append(rs, 1000, 1000000, math.MaxInt)
	nt := 0
	for _, base := range ds {
		for _, max := range ds {
			if base > max {
				continue
			}
			prev := time.Duration(math.MinInt64)
			for _, r := range rs {
				if base == 0 && r > 1000000 {
					continue // 0*1.5 stays 0: the loop would run `retries` times (not a value property)
				}
				st.Execs++
				var got time.Duration
				if p := guard(func() { got = proberlib.VBackoff(base, max, r) }); p != nil {
					x.report("C18.B", "backoff panics", fmt.Sprintf("backoff(%v,%v,%d): %v", base, max, r, p))
					continue
				}
				if got < base || got > max {
					x.report("C18.B", "backoff outside [base,max]", fmt.Sprintf("backoff(%d ns, %d ns, %d) = %d ns", base, max, r, got))
				}
				if got < prev {
					x.report("C18.B", "backoff decreases with the retry count", fmt.Sprintf("backoff(%d ns, %d ns, %d) = %d ns, previous retry count gave %d ns", base, max, r, got, prev))
				}
				if got > base && got < max {
					nt++
				}
				prev = got
			}
		}
	}
	st.Nontrivial, st.States, st.Transitions = nt, st.Execs, st.Execs
	st.Bound = "base,max in {0,1ns,1ms,200ms,5s,1h,2^62,MaxInt64} with base<=max; retries in {-1,0..80,1e3,1e6,MaxInt}"
	st.Samples = []interface{}{map[string]interface{}{"base": "200ms", "max": "5s", "retries": 3, "result": proberlib.VBackoff(200*time.Millisecond, 5*time.Second, 3).String()}}
	return st
}

// reference parser for the server-timing metadata
func refT4T7(h, t metadata.MD) (time.Duration, bool, bool) {
	list := h["server-timing"]
	if len(list) == 0 {
		list = t["server-timing"]
	}
	if len(list) == 0 {
		return 0, true, false
	}
	for _, e := range list {
		const pre = "gfet4t7; dur="
		if len(e) < len(pre) || e[:len(pre)] != pre {
			continue
		}
		n, err := strconv.ParseInt(e[len(pre):], 10, 64)
		if err != nil {
			return 0, true, false
		}
		if n > math.MaxInt64/int64(time.Millisecond) || n < math.MinInt64/int64(time.Millisecond) {
			return 0, false, true // not representable: unspecified
		}
		return time.Duration(n) * time.Millisecond, false, false
	}
	return 0, true, false
}

func (x *c18) latency(c *vsched.RunCtx) vsched.Stats {
	st := vsched.Stats{Name: "parseT4T7Latency", Kind: "inputs", Outcomes: map[string]int{}}
	forms := []string{"gfet4t7; dur=12", "gfet4t7; dur=", "gfet4t7; dur=abc", "gfet4t7; dur=-5", " gfet4t7; dur=3", "other; dur=9", "", "gfet4t7; dur=1234567890123456789", "gfet4t7; dur=99999999999999999999", "gfet4t7; dur=7", "GFET4T7; dur=1", "gfet4t7; dur=1.5"}
	var lists [][]string
	lists = append(lists, nil, []string{})
	for _, a := range forms {
		lists = append(lists, []string{a})
		for _, b := range forms {
			lists = append(lists, []string{a, b})
		}
	}
	mk := func(l []string, key string) metadata.MD {
		if l == nil {
			return nil
		}
		return metadata.MD{key: l}
	}
	nt := map[string]bool{}
	for _, hl := range lists {
		for _, tl := range lists {
			for _, key := range []string{"server-timing"} {
				st.Execs++
				h, t := mk(hl, key), mk(tl, key)
				var got time.Duration
				var err error
				if p := guard(func() { got, err = proberlib.VParseT4T7Latency(h, t) }); p != nil {
					x.report("C18.L", "latency parsing panics", fmt.Sprintf("headers=%q trailers=%q: %v", hl, tl, p))
					continue
				}
				want, wantErr, dc := refT4T7(h, t)
				if dc {
					continue
				}
				if wantErr != (err != nil) {
					x.report("C18.L", "error/no-error differs from the reference", fmt.Sprintf("headers=%q trailers=%q: got (%v, %v), reference error=%v", hl, tl, got, err, wantErr))
				} else if err == nil && got != want {
					x.report("C18.L", "wrong duration", fmt.Sprintf("headers=%q trailers=%q: got %v want %v", hl, tl, got, want))
				}
				if err == nil {
					nt[fmt.Sprint(hl, "|", tl)] = true
				}
			}
		}
	}
	// other keys must be ignored
	if _, err := proberlib.VParseT4T7Latency(metadata.MD{"x-server-timing": {"gfet4t7; dur=1"}}, nil); err == nil {
		x.report("C18.L", "reads a different metadata key", "x-server-timing accepted")
	}
	st.Nontrivial, st.States, st.Transitions = len(nt), st.Execs, st.Execs
	st.Bound = "all (header, trailer) pairs of server-timing lists of length 0-2 over 12 entry forms (plus absent key)"
	st.Samples = []interface{}{map[string]interface{}{"headers": []string{"other; dur=9", "gfet4t7; dur=12"}, "trailers": []string{"gfet4t7; dur=7"}, "expected": "12ms"}}
	return st
}

func stringsUpTo(n int, alpha []string) []string {
	out := []string{""}
	level := []string{""}
	for i := 0; i < n; i++ {
		var next []string
		for _, p := range level {
			for _, a := range alpha {
				next = append(next, p+a)
			}
		}
		out = append(out, next...)
		level = next
	}
	return out
}

func (x *c18) flags(c *vsched.RunCtx) vsched.Stats {
	st := vsched.Stats{Name: "validateFlags", Kind: "inputs", Outcomes: map[string]int{}}
	alpha := []string{"a", "Z", "0", "-", "_", ".", ":", "/", " ", "+", "\n"}
	strs := stringsUpTo(3, alpha)
	short := stringsUpTo(1, alpha)
	qpss := []float64{math.NaN(), math.Inf(1), math.Inf(-1), -1, 0, 5e-324, 1e-300, 1e-10, 1e-9, 0.001, 1, 1000, 1000.0001}
	// every float64 within 3 ulps of a threshold of the accepted range: 0, the rate whose interval is
	// exactly MaxInt64 ns, 1 ns, 1 and 1000
	for _, t := range []float64{0, float64(time.Second) / float64(math.MaxInt64), 1e-9, 1, 1000, float64(time.Second)} {
		up, down := t, t
		for i := 0; i < 3; i++ {
			up, down = math.Nextafter(up, math.Inf(1)), math.Nextafter(down, math.Inf(-1))
			qpss = append(qpss, up, down)
		}
		qpss = append(qpss, t)
	}
	ints := []int{math.MinInt, -1, 0, 1, math.MaxInt}
	ptypes := []string{"noop", "stale_read", "strong_query", "stale_query", "dml", "read_write", "", "NOOP", "noop ", "x"}
	good := func() {
		*project, *opsProject, *instance_name, *database_name, *instanceConfig = "p", "", "i", "d", "c"
		*qps, *numRows, *payloadSize, *probeType = 1, 1, 1, "noop"
	}
	accepted := 0
	judge := func(desc string) {
		st.Execs++
		var errs []error
		if p := guard(func() { errs = validateFlags() }); p != nil {
			x.report("C18.F", "validateFlags panics", fmt.Sprintf("%s: %v", desc, p))
			return
		}
		if len(errs) > 0 {
			st.Outcomes["rejected"]++
			return
		}
		st.Outcomes["accepted"]++
		accepted++
		opt := proberlib.ProberOptions{Project: *project, Instance: *instance_name, Database: *database_name, InstanceConfig: *instanceConfig}
		pu, iu, cu, du := proberlib.VURIs(opt)
		check := func(uri string, want ...string) {
			got := strings.Split(uri, "/")
			if len(got) != len(want) {
				x.report("C18.F", "accepted flags inject extra path segments", fmt.Sprintf("%s: resource name %q has segments %q, want %q", desc, uri, got, want))
				return
			}
			for i := range got {
				if got[i] != want[i] {
					x.report("C18.F", "resource name segments differ from the supplied values", fmt.Sprintf("%s: %q", desc, uri))
					return
				}
			}
			if strings.ContainsAny(uri, " \n\t") {
				x.report("C18.F", "accepted flags put white space into a resource name", fmt.Sprintf("%s: %q", desc, uri))
			}
		}
		check(pu, "projects", *project)
		check(iu, "projects", *project, "instances", *instance_name)
		check(cu, "projects", *project, "instanceConfigs", *instanceConfig)
		check(du, "projects", *project, "instances", *instance_name, "databases", *database_name)
		if _, err := proberlib.ParseProbeType(*probeType); err != nil {
			x.report("C18.F", "accepted probe type does not parse", fmt.Sprintf("%s: %v", desc, err))
		}
		if iv := proberlib.VProbeInterval(*qps); !(iv > 0) {
			x.report("C18.F", "accepted qps gives a non-positive probe interval", fmt.Sprintf("qps=%v accepted, probe interval = %d ns", *qps, iv))
		}
		if *numRows <= 0 || *payloadSize <= 0 {
			x.report("C18.F", "accepted non-positive num_rows/payload_size", desc)
		}
	}
	vars := []*string{project, opsProject, instance_name, database_name, instanceConfig}
	names := []string{"project", "ops_project", "instance", "database", "instance_config"}
	for vi, v := range vars {
		for _, s := range strs {
			good()
			*v = s
			judge(fmt.Sprintf("%s=%q", names[vi], s))
		}
	}
	// neighbourhood of well-formed values: every string of length <= 2 over the alphabet put before,
	// after and in the middle of realistic identifiers (plain, dashed, domain-scoped project ids)
	var upTo2 []string
	for _, s := range strs {
		if len(s) <= 2 {
			upTo2 = append(upTo2, s)
		}
	}
	for vi, v := range vars {
		for _, ex := range []string{"my-project", "example.com:my-project", "a.b:c", "inst_1", "db.v2"} {
			for _, s := range upTo2 {
				for _, cand := range []string{ex + s, s + ex, ex[:len(ex)/2] + s + ex[len(ex)/2:]} {
					good()
					*v = cand
					judge(fmt.Sprintf("%s=%q", names[vi], cand))
				}
			}
		}
	}
	for _, a := range short {
		for _, b := range short {
			for _, d := range short {
				for _, e := range short {
					good()
					*project, *instance_name, *database_name, *instanceConfig = a, b, d, e
					judge(fmt.Sprintf("project=%q instance=%q database=%q instance_config=%q", a, b, d, e))
				}
			}
		}
	}
	for _, q := range qpss {
		for _, n := range ints {
			for _, p := range ints {
				for _, pt := range ptypes {
					good()
					*qps, *numRows, *payloadSize, *probeType = q, n, p, pt
					judge(fmt.Sprintf("qps=%v num_rows=%d payload_size=%d probe_type=%q", q, n, p, pt))
				}
			}
		}
	}
	good()
	st.Nontrivial, st.States, st.Transitions = accepted, st.Execs, st.Execs
	st.Bound = "per string flag every string of length<=3 over 11 characters (others fixed); all 4-tuples of length<=1 strings; qps x num_rows x payload_size x probe_type grids"
	st.Samples = []interface{}{map[string]interface{}{"project": "a:0", "instance": "i", "database": "d", "qps": 1, "accepted": true}}
	return st
}

func (x *c18) payload(c *vsched.RunCtx) vsched.Stats {
	st := vsched.Stats{Name: "generatePayload", Kind: "inputs", Outcomes: map[string]int{}}
	sizes := []int{1024, 4096}
	for i := 0; i <= 64; i++ {
		sizes = append(sizes, i)
	}
	type held struct {
		n    int
		p, h []byte
	}
	var kept []held
	for _, n := range sizes {
		st.Execs++
		var p, h []byte
		var err error
		if pv := guard(func() { p, h, err = proberlib.VGeneratePayload(n) }); pv != nil || err != nil {
			x.report("C18.P", "generatePayload fails", fmt.Sprintf("size %d: %v %v", n, pv, err))
			continue
		}
		sum := sha256.Sum256(p)
		if len(p) != n || !bytes.Equal(h, sum[:]) {
			x.report("C18.P", "payload does not carry its SHA-256 hash", fmt.Sprintf("size %d: len=%d", n, len(p)))
		}
		kept = append(kept, held{n, p, h})
	}
	// results are used after further payloads were generated (a probe keeps them while others run)
	for _, k := range kept {
		sum := sha256.Sum256(k.p)
		if !bytes.Equal(k.h, sum[:]) {
			x.report("C18.P", "an earlier payload/hash pair was modified by a later generatePayload call", fmt.Sprintf("size %d", k.n))
		}
	}
	st.Nontrivial, st.States, st.Transitions = st.Execs, st.Execs, st.Execs
	st.Bound = "sizes 0..64, 1024, 4096"
	st.Samples = []interface{}{map[string]interface{}{"size": 16}}
	return st
}

func checkC18(c *vsched.RunCtx) {
	x := &c18{viol: map[string]*vsched.Violation{}}
	if c.Shard == 0 {
		c.AddStats(x.backoff(c))
		c.AddStats(x.latency(c))
		c.AddStats(x.flags(c))
		c.AddStats(x.payload(c))
	}
	for _, v := range x.viol {
		c.AddViolation(*v)
	}
	c.Assume("backoff: base=0 with more than 1e6 retries is not evaluated (0*1.5 stays 0, the loop length is the retry count); latency values whose millisecond count does not fit a Duration are unspecified",
		"NewProber/Start need the network and are not called: the probe interval is computed by the real probeInterval method on a Prober carrying the accepted qps")
}
