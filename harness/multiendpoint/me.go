//go:build verif && go1.18

package multiendpoint

import (
	"fmt"
	"reflect"
	"sort"
	"strings"
	"testing"
	"time"

	"verif/engine/vsched"
	"verif/engine/vtime"
)

var dbgHook func()

func TestVerif(t *testing.T) {
	if dbgHook != nil {
		dbgHook()
		return
	}
	vsched.Main(map[string]vsched.CheckFunc{
		"C13": func(c *vsched.RunCtx) { checkME(c, "C13") },
		"C14": func(c *vsched.RunCtx) { checkME(c, "C14") },
		"C10": checkMERaces,
		// development entry: the tuple harness alone
		"MEPAIRS": func(c *vsched.RunCtx) { runMEPairs(c, false) },
	})
}

const (
	ms    = time.Millisecond
	slack = 10 * time.Microsecond // every advance overshoots by this much (the clock drifts 1ns per reading)
	tol   = 5 * time.Microsecond
)

type meCfg struct {
	Init  []string
	R, D  time.Duration
	Late  bool
	Setup []string // non-initial root: operations applied before the exploration starts
	Depth int      // 0: default depth of the tier
}

func (c meCfg) String() string {
	s := fmt.Sprintf("init=%s r=%dms d=%dms late=%v", strings.Join(c.Init, ""), c.R/ms, c.D/ms, c.Late)
	if len(c.Setup) > 0 {
		s += " root=" + strings.Join(c.Setup, ";")
	}
	return s
}

func (c meCfg) class() string {
	s := ""
	if c.R > 0 {
		s += "r>0"
	} else {
		s += "r=0"
	}
	if c.D > 0 {
		s += ",d>0"
	} else {
		s += ",d=0"
	}
	if c.Late {
		s += ",late-timers"
	}
	return s
}

const (
	stUnavail = iota
	stAvail
	stRecovering
)

type refEP struct {
	state   int
	until   time.Time
	expired bool // became unavailable because its recovery window ran out
}

type meWorld struct {
	s    *vsched.Sched
	cfg  meCfg
	me   MultiEndpoint
	impl *multiEndpoint
	prop string

	list []string
	st   map[string]*refEP

	callerList []string // the one slice the caller uses for every endpoint list it submits
	viol       []vsched.Violation
	poisoned   bool
	nontriv    bool
	lastOp     string
}

var universe = []string{"A", "B", "C"}

func allLists() [][]string {
	var out [][]string
	var rec func(cur []string, used int)
	rec = func(cur []string, used int) {
		if len(cur) > 0 {
			out = append(out, append([]string{}, cur...))
		}
		for i, e := range universe {
			if used&(1<<i) == 0 {
				rec(append(cur, e), used|1<<i)
			}
		}
	}
	rec(nil, 0)
	sort.SliceStable(out, func(i, j int) bool { return len(out[i]) < len(out[j]) })
	return out
}

func newMEWorld(s *vsched.Sched, cfg meCfg, prop string) *meWorld {
	w := &meWorld{s: s, cfg: cfg, prop: prop, st: map[string]*refEP{}}
	callerOpts := &MultiEndpointOptions{Endpoints: append(make([]string, 0, 8), cfg.Init...), RecoveryTimeout: cfg.R, SwitchingDelay: cfg.D}
	me, err := NewMultiEndpoint(callerOpts)
	if err != nil {
		panic(vsched.CheckError{Msg: "NewMultiEndpoint failed: " + err.Error()})
	}
	// the caller goes on using its options object for something else: the MultiEndpoint keeps the
	// values it was configured with
	callerOpts.RecoveryTimeout += 7 * ms
	callerOpts.SwitchingDelay += 9 * ms
	for i := range callerOpts.Endpoints {
		callerOpts.Endpoints[i] = "overwritten-by-caller"
	}
	w.callerList = callerOpts.Endpoints[:0]
	w.me = me
	w.impl = me.(*multiEndpoint)
	w.list = append([]string{}, cfg.Init...)
	for _, e := range cfg.Init {
		w.st[e] = w.newRef()
	}
	w.afterTransition("init", cfg.Init[0], true)
	for _, op := range cfg.Setup {
		if w.poisoned {
			break
		}
		w.Do(op)
	}
	return w
}

func (w *meWorld) newRef() *refEP {
	if w.cfg.R > 0 {
		return &refEP{state: stRecovering, until: w.s.Clock().Add(w.cfg.R)}
	}
	return &refEP{state: stUnavail}
}

func (w *meWorld) violate(prop, rule, cause, msg string) {
	w.viol = append(w.viol, vsched.Violation{Property: prop, Rule: rule,
		Sig: fmt.Sprintf("%s [%s] %s", rule, w.cfg.class(), cause), Msg: msg})
}

// refTime moves the reference windows to the current clock.
func (w *meWorld) refTime() {
	now := w.s.Clock()
	for _, e := range w.list {
		r := w.st[e]
		if r.state == stRecovering {
			// The library's timer is due a few nanoseconds before the reference
			// instant (clock drift); the clock only ever stops inside the
			// tolerance band when that timer fires, so the band counts as "ended".
			if !now.Before(r.until.Add(-tol)) {
				r.state = stUnavail
				r.expired = true
			}
		}
	}
}

func (w *meWorld) inList(e string) bool {
	for _, x := range w.list {
		if x == e {
			return true
		}
	}
	return false
}

func (w *meWorld) prio(e string) int {
	for i, x := range w.list {
		if x == e {
			return i
		}
	}
	return 1 << 20
}

func (w *meWorld) topAvail() string {
	for _, e := range w.list {
		if w.st[e].state == stAvail {
			return e
		}
	}
	return ""
}

// runOp executes fn on a controlled thread and classifies crashes/hangs.
func (w *meWorld) runOp(name string, fn func()) bool {
	th := w.s.Go(name, fn)
	w.s.WaitQuiescent()
	return w.checkThread(th, name)
}

func (w *meWorld) checkThread(th *vsched.Thread, name string) bool {
	kind := strings.SplitN(name, "(", 2)[0]
	switch {
	case th.PanicVal != nil:
		w.violate("C13", "C13.TOTAL", "panic in "+th.PanicSite+" during "+kind, fmt.Sprintf("%s panicked: %v", name, th.PanicVal))
		w.poisoned = true
	case th.Livelock:
		w.violate("C13", "C13.TOTAL", "no termination in "+th.LiveSite+" during "+kind, name+" exceeded the step budget")
		w.poisoned = true
	case !th.Done():
		w.violate("C13", "C13.TOTAL", "deadlock during "+kind, name+" blocked forever at "+th.Desc)
		w.poisoned = true
	case th.Held != 0:
		w.violate("C13", "C13.TOTAL", "lock left held by "+kind, name+" returned holding a lock")
		w.poisoned = true
	}
	return !w.poisoned
}

func (w *meWorld) Ops() []string {
	var ops []string
	for _, e := range universe {
		ops = append(ops, "avail("+e+",1)", "avail("+e+",0)")
	}
	ops = append(ops, "avail(X,1)")
	for _, d := range w.advMenu() {
		ops = append(ops, fmt.Sprintf("adv(%d)", d/ms))
	}
	for _, l := range allLists() {
		ops = append(ops, "set("+strings.Join(l, "")+")")
	}
	ops = append(ops, "set()", "set(AA)")
	if w.cfg.Late {
		for _, d := range w.advMenu() {
			ops = append(ops, fmt.Sprintf("expire(%d)", d/ms))
		}
		for i := range w.s.ExpiredUnfired() {
			ops = append(ops, fmt.Sprintf("fire(%d)", i))
		}
	}
	return ops
}

func (w *meWorld) advMenu() []time.Duration {
	m := map[time.Duration]bool{ms: true}
	if w.cfg.R > 0 {
		m[w.cfg.R] = true
		if w.cfg.R > ms {
			m[w.cfg.R-ms] = true // lands strictly inside a window that was (wrongly) re-started 1ms late
		}
	}
	if w.cfg.D > 0 {
		m[w.cfg.D] = true
	}
	var out []time.Duration
	for d := range m {
		out = append(out, d)
	}
	sort.Slice(out, func(i, j int) bool { return out[i] < out[j] })
	return out
}

func (w *meWorld) Do(op string) {
	w.lastOp = op
	name := op[:strings.Index(op, "(")]
	arg := op[strings.Index(op, "(")+1 : len(op)-1]
	pre := w.me.Current()
	switch name {
	case "avail":
		parts := strings.Split(arg, ",")
		e, b := parts[0], parts[1] == "1"
		if !w.runOp(op, func() { w.me.SetEndpointAvailability(e, b) }) {
			return
		}
		w.refTime()
		if r, ok := w.st[e]; ok && w.inList(e) {
			if b {
				if r.state != stAvail {
					w.nontriv = true
				}
				r.state = stAvail
				r.expired = false
			} else if r.state == stAvail {
				w.nontriv = true
				if w.cfg.R > 0 {
					r.state, r.until = stRecovering, w.s.Clock().Add(w.cfg.R)
				} else {
					r.state = stUnavail
				}
			}
		}
		w.afterTransition("avail", pre, true)
	case "set":
		var l []string
		for _, c := range arg {
			l = append(l, string(c))
		}
		keyBefore := ""
		if len(l) == 0 {
			keyBefore = w.Key()
		}
		var err error
		// the caller keeps ONE slice for its endpoint lists and rewrites it in place before every
		// call (slices are passed by reference: a library that keeps the list must copy it)
		w.callerList = append(w.callerList[:0], l...)
		submitted := w.callerList
		if !w.runOp(op, func() { err = w.me.SetEndpoints(submitted) }) {
			return
		}
		w.refTime()
		if len(l) == 0 {
			if err == nil {
				w.violate("C13", "C13.M5", "empty list accepted", "SetEndpoints([]) returned nil")
			}
			if k := w.Key(); k != keyBefore {
				w.violate("C13", "C13.M5", "empty list changed state", "state changed by a rejected SetEndpoints([]):\n before "+keyBefore+"\n after  "+k)
			}
			w.afterTransition("set-rejected", pre, true)
			return
		}
		if err != nil {
			w.violate("C13", "C13.M5", "non-empty list rejected", fmt.Sprintf("SetEndpoints(%v) returned %v", l, err))
			w.poisoned = true
			return
		}
		w.nontriv = true
		nst := map[string]*refEP{}
		var nl []string
		for _, e := range l {
			if _, dup := nst[e]; dup {
				continue
			}
			if r, ok := w.st[e]; ok && w.inList(e) {
				nst[e] = r
			} else {
				nst[e] = w.newRef()
			}
			nl = append(nl, e)
		}
		// a duplicate in the list: priority of the endpoint is that of its last
		// occurrence in the code; the statement does not define it: such lists
		// are judged for membership/totality only.
		w.list, w.st = nl, nst
		if len(nl) != len(l) {
			w.afterTransition("set-dup", pre, false)
			w.poisoned = true // do not build on an undefined priority order
			return
		}
		w.afterTransition("set", pre, true)
	case "adv", "expire":
		var n int
		fmt.Sscanf(arg, "%d", &n)
		w.advance(time.Duration(n)*ms+slack, name == "expire")
		if w.poisoned {
			return
		}
		w.afterOp(pre, "adv")
	case "fire":
		var i int
		fmt.Sscanf(arg, "%d", &i)
		ex := w.s.ExpiredUnfired()
		if i >= len(ex) {
			panic(vsched.CheckError{Msg: "fire index out of range"})
		}
		th := w.s.Fire(ex[i])
		w.s.WaitQuiescent()
		if !w.checkThread(th, "timer") {
			return
		}
		w.safety("timer", pre)
		w.refTime()
		w.afterTransition("timer", pre, false)
		w.afterOp(pre, "fire")
	default:
		panic(vsched.CheckError{Msg: "unknown op " + op})
	}
}

// advance moves the clock, firing due timers in time order (simultaneous ones
// in an explorer-chosen order). With lateOnly the function timers only expire.
// The safety monitors (M1, D2) run after every single firing; the monitors
// that refer to the reference windows run once the whole group of timers due
// at one instant has fired (their relative order is not observable).
func (w *meWorld) advance(d time.Duration, lateOnly bool) {
	target := w.s.Clock().Add(d)
	for {
		p := w.s.Pending()
		if len(p) == 0 || p[0].When.After(target) {
			break
		}
		groupPre := w.me.Current()
		groupAt := p[0].When
		fired := false
		for {
			p = w.s.Pending()
			n := 0
			for n < len(p) && p[n].When.Sub(groupAt) < tol {
				n++
			}
			if n == 0 {
				break
			}
			k := 0
			if n > 1 {
				k = w.s.Choose(n, "timer-order")
				w.nontriv = true
			}
			t := p[k]
			if t.When.After(w.s.Clock()) {
				w.s.SetNow(t.When)
			}
			pre := w.me.Current()
			w.s.Expire(t)
			if t.Fn != nil && !lateOnly {
				th := w.s.Fire(t)
				w.s.WaitQuiescent()
				if !w.checkThread(th, "timer") {
					return
				}
				fired = true
				w.safety("timer", pre)
			}
		}
		if fired {
			w.refTime()
			w.afterTransition("timer", groupPre, false)
		}
	}
	if target.After(w.s.Clock()) {
		w.s.SetNow(target)
	}
	w.refTime()
}

// refExpected is the function of C13.M4 (no switching delay).
func (w *meWorld) refExpected(pre string) string {
	if w.inList(pre) && w.st[pre].state == stRecovering {
		if ta := w.topAvail(); ta == "" || w.prio(ta) > w.prio(pre) {
			return pre
		}
	}
	if ta := w.topAvail(); ta != "" {
		return ta
	}
	if w.inList(pre) {
		return pre
	}
	return w.list[0]
}

// afterTransition runs the monitors that hold after every transition (timer
// firings included); isOp adds the ones that hold when an API call returns.
func (w *meWorld) safety(kind, pre string) {
	cur := w.me.Current()
	desc := fmt.Sprintf("%s: Current() %s -> %s; list=%v states=%s", w.lastOp+"/"+kind, pre, cur, w.list, w.refString())
	if !w.inList(cur) {
		w.violate("C13", "C13.M1", "current not in list after "+kind, desc)
	}
	// D2: never from an available endpoint to a lower-priority one
	if cur != pre && w.inList(pre) && w.st[pre].state == stAvail && w.inList(cur) && w.prio(cur) > w.prio(pre) {
		w.violate("C14", "C14.D2", "moved from available to lower priority by "+kind, desc)
	}
}

func (w *meWorld) afterTransition(kind, pre string, isOp bool) {
	cur := w.me.Current()
	desc := fmt.Sprintf("%s: Current() %s -> %s; list=%v states=%s", w.lastOp+"/"+kind, pre, cur, w.list, w.refString())
	if kind != "timer" {
		w.safety(kind, pre)
	}
	// W1: a recovering current endpoint stays while nothing better is available
	// (a lower bound by the clock: it holds with late timers as well, which can
	// only delay the end of a window, never hasten it)
	if w.cfg.R > 0 && w.inList(pre) && w.st[pre].state == stRecovering && w.s.Clock().Before(w.st[pre].until.Add(-tol)) {
		if ta := w.topAvail(); ta == "" || w.prio(ta) > w.prio(pre) {
			if cur != pre {
				w.violate("C14", "C14.W1", "left a recovering current endpoint during "+kind, desc)
			}
		}
	}
	if w.cfg.Late {
		return
	}
	if w.cfg.D == 0 {
		if exp := w.refExpected(pre); cur != exp {
			w.violate("C13", "C13.M4", "current differs from reference after "+kind, desc+" expected "+exp)
		}
	}
	if isOp {
		w.afterOp(pre, kind)
	}
}

// afterOp: monitors for the moment an API call (or a whole clock advance) returns.
func (w *meWorld) afterOp(pre, kind string) {
	cur := w.me.Current()
	desc := fmt.Sprintf("%s: Current() %s -> %s; list=%v states=%s", w.lastOp, pre, cur, w.list, w.refString())
	if w.cfg.Late {
		return
	}
	ta := w.topAvail()
	if ta != "" {
		// M2
		if w.inList(cur) && w.st[cur].state == stUnavail {
			w.violate("C13", "C13.M2", "current known unavailable while another is available after "+kind, desc)
			if w.st[cur].expired {
				w.violate("C14", "C14.W2", "current endpoint kept beyond the end of its recovery window", desc)
			}
		} else if kind != "adv" && kind != "fire" && (!w.inList(pre) || w.st[pre].state == stUnavail) && cur != ta {
			w.violate("C13", "C13.M2", "not top available after leaving unavailable/removed current in "+kind, desc+" expected "+ta)
		}
	} else {
		// M3
		exp := pre
		if !w.inList(pre) {
			exp = w.list[0]
		}
		if cur != exp {
			w.violate("C13", "C13.M3", "changed with nothing available in "+kind, desc+" expected "+exp)
		}
	}
	// D1
	if w.cfg.D > 0 && kind != "adv" && kind != "fire" && w.inList(pre) && w.st[pre].state != stUnavail && cur != pre {
		w.violate("C14", "C14.D1", "switched inside the call "+kind, desc)
	}
}

func (w *meWorld) refString() string {
	var b []string
	for _, e := range w.list {
		r := w.st[e]
		switch r.state {
		case stAvail:
			b = append(b, e+":avail")
		case stUnavail:
			b = append(b, e+":unavail")
		default:
			b = append(b, fmt.Sprintf("%s:recovering(%+dus)", e, r.until.Sub(w.s.Clock())/time.Microsecond))
		}
	}
	return strings.Join(b, ",")
}

// Closure: C14.L1 — from this state, with no further input, firing all
// pending timers (in time order; ties in explorer-chosen order) converges to
// the top available endpoint.
func (w *meWorld) Closure() {
	for i := 0; ; i++ {
		if i > 40 {
			w.violate("C14", "C14.L1", "timers never run out", "more than 40 timer firings with no input after "+w.lastOp)
			return
		}
		for _, t := range w.s.ExpiredUnfired() {
			pre := w.me.Current()
			th := w.s.Fire(t)
			w.s.WaitQuiescent()
			if !w.checkThread(th, "timer") {
				return
			}
			w.safety("timer", pre)
		}
		p := w.s.Pending()
		if len(p) == 0 {
			break
		}
		w.advance(p[0].When.Sub(w.s.Clock())+slack, false)
		if w.poisoned {
			return
		}
	}
	w.refTime()
	if ta := w.topAvail(); ta != "" {
		if cur := w.me.Current(); cur != ta {
			w.violate("C14", "C14.L1", "quiescent current is not the top available endpoint",
				fmt.Sprintf("after %s and all timers: Current()=%s, top available=%s; list=%v states=%s", w.lastOp, cur, ta, w.list, w.refString()))
		}
	}
}

var timerPtrType = reflect.TypeOf((*vtime.Timer)(nil))

func (w *meWorld) Key() string {
	// rank-compress the instants whose identity (not value) matters
	var instants []time.Time
	for _, e := range w.impl.endpoints {
		instants = append(instants, e.lastChange)
	}
	timers := append(w.s.Pending(), w.s.ExpiredUnfired()...)
	for _, t := range timers {
		instants = append(instants, t.Created)
	}
	sort.Slice(instants, func(i, j int) bool { return instants[i].Before(instants[j]) })
	rank := func(t time.Time) int {
		r := 0
		for i, x := range instants {
			if i > 0 && x.Sub(instants[i-1]) > tol {
				r++
			}
			if !x.Before(t) {
				break
			}
		}
		return r
	}
	tidx := map[*vsched.VTimer]int{}
	var tdesc []string
	for i, t := range timers {
		tidx[t] = i
		kind := "switch"
		if strings.Contains(t.Label, "scheduleUnavailable") {
			kind = "recover"
		}
		tdesc = append(tdesc, fmt.Sprintf("t%d:%s@%+d(exp=%v,c=r%d)", i, kind, t.When.Sub(w.s.Clock()).Round(100*time.Microsecond)/(100*time.Microsecond), t.Expired, rank(t.Created)))
	}
	d := &vsched.Dumper{Now: w.s.Clock(),
		InScope:   func(t reflect.Type) bool { return strings.HasSuffix(t.PkgPath(), "/multiendpoint") },
		SkipField: func(typ, f string) bool { return typ == "endpoint" && f == "lastChange" },
		Foreign: func(v reflect.Value) (string, bool) {
			if v.Type() == timerPtrType && !v.IsNil() {
				vt := (*vtime.Timer)(v.UnsafePointer()).VT()
				if i, ok := tidx[vt]; ok {
					return fmt.Sprintf("t%d", i), true
				}
				return "t-dead", true
			}
			return "", false
		}}
	var lc []string
	for _, e := range universe {
		if ep, ok := w.impl.endpoints[e]; ok {
			lc = append(lc, fmt.Sprintf("%s:r%d", e, rank(ep.lastChange)))
		}
	}
	return d.Dump(w.impl) + "|lc=" + strings.Join(lc, ",") + "|timers=" + strings.Join(tdesc, ",") + "|ref=" + w.refString()
}

func (w *meWorld) Poisoned() bool { return w.poisoned }
func (w *meWorld) Take() []vsched.Violation {
	v := w.viol
	w.viol = nil
	return v
}
func (w *meWorld) Nontrivial() bool { return w.nontriv }

func meConfigs(thorough bool) []meCfg {
	var out []meCfg
	inits := [][]string{{"A", "B"}, {"A", "B", "C"}}
	timers := [][2]time.Duration{{0, 0}, {10 * ms, 0}, {0, 4 * ms}, {4 * ms, 10 * ms}, {10 * ms, 4 * ms}, {10 * ms, 10 * ms}}
	for _, tm := range timers {
		for _, in := range inits {
			out = append(out, meCfg{Init: in, R: tm[0], D: tm[1]})
		}
	}
	// non-initial roots: a delayed switch (to A) already pending
	for _, tm := range timers {
		if tm[1] == 0 {
			continue
		}
		setup := []string{"avail(B,1)", "avail(A,1)"}
		if tm[0] > 0 {
			setup = []string{"avail(B,1)", fmt.Sprintf("adv(%d)", tm[0]/ms), "avail(A,1)"}
		}
		out = append(out, meCfg{Init: []string{"A", "B", "C"}, R: tm[0], D: tm[1], Setup: setup})
	}
	// late timers (a due timer runs after further operations; Stop() on it fails), from a
	// root where the current endpoint's recovery timer is due but has not run yet
	for ti, tm := range timers {
		if tm[0] == 0 || (!thorough && ti == 5) {
			continue
		}
		out = append(out, meCfg{Init: []string{"A", "B"}, R: tm[0], D: tm[1], Late: true, Depth: 3,
			Setup: []string{"avail(A,1)", "avail(B,1)", "avail(A,0)", fmt.Sprintf("expire(%d)", tm[0]/ms)}})
	}
	if thorough {
		for _, tm := range timers[1:] {
			out = append(out, meCfg{Init: []string{"A", "B"}, R: tm[0], D: tm[1], Late: true})
		}
	}
	return out
}

func checkME(c *vsched.RunCtx, prop string) {
	depth := 4
	if c.Thorough() {
		depth = 6
	}
	if c.Replay != nil {
		if c.Replay.Harness == "sched:me-timers" {
			runMEDrivers(c, false)
		} else if strings.HasPrefix(c.Replay.Harness, "me-pairs") {
			runMEPairs(c, false)
		} else {
			replayME(c, prop)
		}
		return
	}
	if prop == "C14" {
		runMEDrivers(c, false)
	}
	// tuple linearizability (me_pairs.go): pairs and triples of operations overlapped in every schedule
	runMEPairs(c, false)
	cfgs := meConfigs(c.Thorough())
	idx, sub, nsub := c.Split(len(cfgs))
	for _, i := range idx {
		cfg := cfgs[i]
		d := depth
		if cfg.Depth > 0 {
			d = cfg.Depth
			if c.Thorough() {
				d++
			}
		}
		res := vsched.BFS(vsched.BFSOpts{Name: "me", Config: cfg.String(), Depth: d, DevPerOp: 1, Deadline: c.Deadline, Shard: sub, NShards: nsub,
			Closure: func(w vsched.World, s *vsched.Sched) { w.(*meWorld).Closure() }},
			func(s *vsched.Sched) vsched.World { return newMEWorld(s, cfg, prop) })
		c.Add(res)
	}
	c.Assume("virtual clock (1ns drift per reading, advances overshoot by 10us); time.AfterFunc modelled by the scheduler's timer wheel: Stop() succeeds on a timer that is not yet due",
		"endpoint universe {A,B,C} plus one unknown name; lists with a duplicate are judged for membership/totality only")
}

func parseMECfg(s string) meCfg {
	var in string
	var r, d int
	var late bool
	fmt.Sscanf(s, "init=%s r=%dms d=%dms late=%t", &in, &r, &d, &late)
	var l []string
	for _, ch := range in {
		l = append(l, string(ch))
	}
	c := meCfg{Init: l, R: time.Duration(r) * ms, D: time.Duration(d) * ms, Late: late}
	if i := strings.Index(s, " root="); i >= 0 {
		c.Setup = strings.Split(s[i+6:], ";")
	}
	return c
}

func replayME(c *vsched.RunCtx, prop string) {
	v := c.Replay
	cfg := parseMECfg(v.Config)
	var got []vsched.Violation
	s := vsched.Run(vsched.Opts{Prefix: v.Choices, Trace: true}, func(s *vsched.Sched) {
		w := newMEWorld(s, cfg, prop)
		for _, op := range v.History {
			w.Do(op)
			s.Events = append(s.Events, fmt.Sprintf("== after %s: Current()=%s ref=%s", op, w.me.Current(), w.refString()))
		}
		if !w.Poisoned() {
			w.Closure()
		}
		got = w.Take()
	})
	rr := &vsched.ReplayResult{Trace: s.Events}
	for _, g := range got {
		if g.Sig == v.Sig {
			rr.Reproduced = true
			rr.Msg = g.Msg
		}
	}
	c.SetReplay(rr)
}

// ---- concurrency driver: Current || SetEndpointAvailability || SetEndpoints || two due timers ----

func meDriverBody(variant int) func(s *vsched.Sched) *vsched.ExecOutcome {
	return func(s *vsched.Sched) *vsched.ExecOutcome {
		s.Frozen = true
		cfg := meCfg{Init: []string{"A", "B", "C"}, R: 10 * ms, D: 4 * ms}
		w := newMEWorld(s, cfg, "C14")
		for _, op := range []string{"avail(B,1)", "adv(10)", "avail(A,1)", "avail(C,1)", "avail(C,0)"} {
			w.Do(op)
		}
		// now: current B, delayed switch to A pending (4ms), C recovering (10ms)
		clock := s.Clock()
		var due []*vsched.VTimer
		for _, t := range s.Pending() {
			due = append(due, t)
		}
		s.Frozen = false
		var viol []vsched.Violation
		add := func(prop, rule, cause, msg string) {
			viol = append(viol, vsched.Violation{Property: prop, Rule: rule, Sig: rule + " [driver me-timers] " + cause, Msg: msg})
		}
		if w.poisoned || len(due) < 2 {
			return &vsched.ExecOutcome{Outcome: fmt.Sprintf("setup-failed(due=%d)", len(due)), Violations: w.Take()}
		}
		// both timers become due "now" and run as concurrent threads
		s.SetNow(clock.Add(10*ms + slack))
		var ths []*vsched.Thread
		var names []string
		for _, t := range due {
			s.Expire(t)
			if t.Fn != nil {
				ths = append(ths, s.Fire(t))
				names = append(names, "timer")
			}
		}
		var cur []string
		ops := [][]func(){
			{func() { w.me.SetEndpoints([]string{"B", "A"}) }, func() { w.me.SetEndpointAvailability("B", false) }},
			{func() { w.me.SetEndpoints([]string{"C", "A", "B"}) }, func() { w.me.SetEndpointAvailability("A", false) }},
			{func() { w.me.SetEndpoints([]string{"A"}) }, func() { w.me.SetEndpointAvailability("C", true) }},
		}[variant]
		ths = append(ths, s.Go("setEndpoints", ops[0]), s.Go("setAvail", ops[1]), s.Go("reader", func() {
			cur = append(cur, w.me.Current())
			cur = append(cur, w.me.Current())
		}))
		names = append(names, "setEndpoints", "setAvail", "reader")
		s.WaitQuiescent()
		var out []string
		for i, th := range ths {
			switch {
			case th.PanicVal != nil:
				add("C13", "C13.TOTAL", fmt.Sprintf("panic in %s (thread %s)", th.PanicSite, names[i]), fmt.Sprint(th.PanicVal))
				out = append(out, names[i]+":panic")
			case !th.Done():
				add("C13", "C13.TOTAL", "thread "+names[i]+" blocked forever", th.Desc)
				out = append(out, names[i]+":blocked")
			default:
				out = append(out, names[i]+":ok")
			}
		}
		// convergence: fire everything that is left, then Current() must be the top available endpoint
		if len(viol) == 0 {
			for i := 0; i < 20; i++ {
				p := s.Pending()
				if len(p) == 0 {
					break
				}
				s.AdvanceBy(p[0].When.Sub(s.Clock()) + slack)
			}
			impl := w.impl
			top := ""
			best := 1 << 30
			for id, e := range impl.endpoints {
				if e.status == available && e.priority < best {
					top, best = id, e.priority
				}
			}
			if _, in := impl.endpoints[impl.current]; !in {
				add("C13", "C13.M1", "current not in list after concurrent operations", impl.current)
			}
			if top != "" && impl.current != top {
				add("C14", "C14.L1", "quiescent current is not the top available endpoint after concurrent operations", fmt.Sprintf("current=%s top available=%s", impl.current, top))
			}
		}
		o := strings.Join(out, ",") + "|" + strings.Join(cur, ",") + "|" + w.impl.current
		return &vsched.ExecOutcome{Outcome: o, StateKey: o, Nontrivial: true, Violations: viol}
	}
}

func runMEDrivers(c *vsched.RunCtx, race bool) {
	pre, dev, delay := 2, 1, 3
	if c.Thorough() {
		pre, dev, delay = 3, 1, 4
	}
	for v := 0; v < 3; v++ {
		name := fmt.Sprintf("variant=%d", v)
		if c.Replay != nil {
			if c.Replay.Harness == "sched:me-timers" && c.Replay.Config == name {
				out, s := vsched.RunOnce(vsched.ExploreOpts{Race: race}, c.Replay.Choices, true, meDriverBody(v))
				rr := &vsched.ReplayResult{Trace: s.Events}
				for _, x := range out.Violations {
					if x.Sig == c.Replay.Sig {
						rr.Reproduced, rr.Msg = true, x.Msg
					}
				}
				for sig := range s.Races {
					if "race: "+sig == c.Replay.Sig {
						rr.Reproduced, rr.Msg = true, sig
					}
				}
				c.SetReplay(rr)
			}
			continue
		}
		res := vsched.Explore(vsched.ExploreOpts{Name: "sched:me-timers", Config: name, PreemptBound: pre, DevBound: dev, DelayBound: delay, Race: race,
			Deadline: c.Deadline, Shard: c.Shard, NShards: c.NShards}, meDriverBody(v))
		c.Add(res)
	}
}

func checkMERaces(c *vsched.RunCtx) {
	runMEDrivers(c, true)
	if c.Replay == nil || strings.HasPrefix(c.Replay.Harness, "me-pairs") {
		runMEPairs(c, true)
	}
	c.Assume("multiendpoint driver: two due timers, SetEndpoints, SetEndpointAvailability and a Current() reader as concurrent threads on the real multiEndpoint")
}
