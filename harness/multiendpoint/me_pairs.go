//go:build verif && go1.18

package multiendpoint

import (
	"fmt"
	"sort"
	"strings"
	"time"

	"verif/engine/vsched"
	"verif/engine/vtime"
)

// Tuple linearizability of the MultiEndpoint — a differential oracle without
// hand-written expected values. Every public operation and every timer
// callback of a multiEndpoint is meant to be one atomic step. For a prepared
// state and every pair / triple of operations (endpoint-list replacements,
// availability reports, due timers firing, Current() readers) the real code
// runs the tuple in every sequential order and records (a) what the readers
// saw, (b) the full state at quiescence, (c) the state after every remaining
// timer has fired. Then the tuple runs overlapped under the schedule explorer
// and every explored execution must reproduce the record of one sequential
// order. A critical section split in two, a check made before the lock is
// taken, or a field published outside the lock shows as a record no order
// produces.

type mePairState struct {
	name  string
	cfg   meCfg
	setup []string
}

func mePairStates() []mePairState {
	return []mePairState{
		// current B, delayed switch to A pending, C recovering
		{"switch-pending+recovering", meCfg{Init: []string{"A", "B", "C"}, R: 10 * ms, D: 4 * ms},
			[]string{"avail(B,1)", "adv(10)", "avail(A,1)", "avail(C,1)", "avail(C,0)"}},
		// current A is recovering, B available (no switch while A recovers)
		{"current-recovering", meCfg{Init: []string{"A", "B"}, R: 10 * ms, D: 0},
			[]string{"avail(A,1)", "avail(B,1)", "avail(A,0)"}},
		// no recovery window: current B, delayed switch to A pending
		{"switch-pending", meCfg{Init: []string{"A", "B"}, R: 0, D: 4 * ms},
			[]string{"avail(B,1)", "avail(A,1)"}},
		// no recovery window, no delay, everything available: overlapping outage reports
		{"all-available-plain", meCfg{Init: []string{"A", "B", "C"}, R: 0, D: 0},
			[]string{"avail(A,1)", "avail(B,1)", "avail(C,1)"}},
		// fresh: every endpoint inside its initial recovery window
		{"fresh", meCfg{Init: []string{"A", "B", "C"}, R: 10 * ms, D: 4 * ms}, nil},
	}
}

type mePairOp struct {
	name  string
	timer int // index into the prepared state's pending timers, -1 for a call
	fn    func(w *meWorld, res *[]string)
}

func mePairOps(nTimers int) []mePairOp {
	var ops []mePairOp
	for _, l := range []string{"BA", "CAB", "A"} {
		var list []string
		for _, c := range l {
			list = append(list, string(c))
		}
		ops = append(ops, mePairOp{name: "set(" + l + ")", timer: -1, fn: func(w *meWorld, _ *[]string) { w.me.SetEndpoints(list) }})
	}
	for _, e := range universe {
		for _, b := range []bool{true, false} {
			e, b := e, b
			n := "0"
			if b {
				n = "1"
			}
			ops = append(ops, mePairOp{name: "avail(" + e + "," + n + ")", timer: -1, fn: func(w *meWorld, _ *[]string) { w.me.SetEndpointAvailability(e, b) }})
		}
	}
	for i := 0; i < nTimers; i++ {
		ops = append(ops, mePairOp{name: fmt.Sprintf("timer%d", i), timer: i})
	}
	ops = append(ops, mePairOp{name: "cur", timer: -1, fn: func(w *meWorld, res *[]string) { *res = append(*res, w.me.Current()) }})
	return ops
}

func (w *meWorld) project() string {
	impl := w.impl
	var eps []string
	for id, e := range impl.endpoints {
		pend := false
		if e.futureChange != nil {
			if t, ok := e.futureChange.(*vtime.Timer); ok && t != nil && t.VT() != nil && t.VT().Active {
				pend = true
			}
		}
		eps = append(eps, fmt.Sprintf("%s:%d:p%d:timer=%v", id, e.status, e.priority, pend))
	}
	sort.Strings(eps)
	return fmt.Sprintf("current=%s future=%s [%s] pending=%d", impl.current, impl.future, strings.Join(eps, " "), len(w.s.Pending()))
}

type meTupleRun struct {
	broken string
	record string
}

func runMETuple(s *vsched.Sched, st mePairState, idx []int, concurrent bool) *meTupleRun {
	s.Frozen = true
	w := newMEWorld(s, st.cfg, "C13")
	for _, op := range st.setup {
		w.Do(op)
	}
	r := &meTupleRun{}
	if w.poisoned {
		r.broken = "setup"
		s.Frozen = false
		return r
	}
	pend := s.Pending()
	ops := mePairOps(len(pend))
	// the timers of the tuple become due
	for _, i := range idx {
		if t := ops[i].timer; t >= 0 {
			if at := pend[t].When.Add(slack); at.After(s.Clock()) {
				s.SetNow(at)
			}
		}
	}
	if concurrent {
		s.Frozen = false
	}
	var ths []*vsched.Thread
	var names []string
	var results []string
	for _, i := range idx {
		o := ops[i]
		if o.timer >= 0 {
			t := pend[o.timer]
			if !t.Active {
				// stopped by an earlier operation of a sequential order: it never fires
				names = append(names, o.name)
				ths = append(ths, nil)
				continue
			}
			s.Expire(t)
			ths = append(ths, s.Fire(t))
		} else {
			ths = append(ths, s.Go(o.name, func() { o.fn(w, &results) }))
		}
		names = append(names, o.name)
		if !concurrent {
			s.WaitQuiescent()
		}
	}
	s.WaitQuiescent()
	s.Frozen = true
	defer func() { s.Frozen = false }()
	for i, th := range ths {
		if th == nil {
			continue
		}
		switch {
		case th.PanicVal != nil:
			r.broken = fmt.Sprintf("panic in %s: %v", names[i], th.PanicVal)
		case th.Livelock:
			r.broken = "spin in " + names[i]
		case !th.Done():
			r.broken = names[i] + " blocked forever at " + th.Desc
		}
	}
	if r.broken != "" {
		return r
	}
	sort.Strings(results)
	p1 := w.project()
	for i := 0; i < 30; i++ {
		p := s.Pending()
		if len(p) == 0 {
			break
		}
		d := p[0].When.Sub(s.Clock())
		if d < 0 {
			d = 0
		}
		s.AdvanceBy(d + slack)
	}
	r.record = "readers=" + strings.Join(results, ",") + " | " + p1 + " | converged: " + w.project()
	return r
}

func mePermutations(idx []int) [][]int {
	if len(idx) <= 1 {
		return [][]int{append([]int{}, idx...)}
	}
	var out [][]int
	for i := range idx {
		rest := append(append([]int{}, idx[:i]...), idx[i+1:]...)
		for _, p := range mePermutations(rest) {
			out = append(out, append([]int{idx[i]}, p...))
		}
	}
	return out
}

func meTuples(n, k int) [][]int {
	var out [][]int
	var rec func(start int, cur []int)
	rec = func(start int, cur []int) {
		if len(cur) == k {
			out = append(out, append([]int{}, cur...))
			return
		}
		for i := start; i < n; i++ {
			rec(i+1, append(cur, i))
		}
	}
	rec(0, nil)
	return out
}

// In a concurrent run a timer of the tuple always fires (it was due before the
// other operations started); in a sequential order an earlier operation may
// have stopped it. Both are legitimate serialisations of the overlap, so the
// reference set holds the sequential orders with and without the stop.
func runMEPairs(c *vsched.RunCtx, race bool) {
	// at most 40% of the time left to the check (see harness/grpcgcp/pairs.go)
	deadline := c.Deadline
	if !deadline.IsZero() && !race {
		deadline = time.Now().Add(time.Until(c.Deadline) * 2 / 5)
	}
	pre := 2
	if c.Thorough() {
		pre = 3
	}
	unit := 0
	for _, st := range mePairStates() {
		nT := 0
		vsched.Run(vsched.Opts{}, func(s *vsched.Sched) {
			s.Frozen = true
			w := newMEWorld(s, st.cfg, "C13")
			for _, op := range st.setup {
				w.Do(op)
			}
			nT = len(s.Pending())
		})
		ops := mePairOps(nT)
		all := meTuples(len(ops), 2)
		if !race || c.Thorough() {
			all = append(all, meTuples(len(ops), 3)...)
		}
		for _, idx := range all {
			idx := idx
			unit++
			if unit%c.NShards != c.Shard && c.Replay == nil {
				continue
			}
			var nm []string
			for _, i := range idx {
				nm = append(nm, ops[i].name)
			}
			tupleName := strings.Join(nm, " || ")
			cfgName := st.name + ": " + tupleName
			seq := map[string]bool{}
			var seqList []string
			brokenSeq := false
			for _, perm := range mePermutations(idx) {
				perm := perm
				var r *meTupleRun
				vsched.Run(vsched.Opts{}, func(s *vsched.Sched) { r = runMETuple(s, st, perm, false) })
				if r.broken != "" {
					brokenSeq = true
					break
				}
				if !seq[r.record] {
					seq[r.record] = true
					seqList = append(seqList, r.record)
				}
			}
			if brokenSeq {
				continue // a sequential crash is the business of the history check
			}
			body := func(s *vsched.Sched) *vsched.ExecOutcome {
				r := runMETuple(s, st, idx, true)
				out := &vsched.ExecOutcome{Nontrivial: true, Outcome: r.record, StateKey: r.record}
				if r.broken != "" {
					out.Outcome, out.StateKey = "broken: "+r.broken, "broken: "+r.broken
					out.Violations = append(out.Violations, vsched.Violation{Property: "C13", Rule: "C13.TOTAL",
						Sig: fmt.Sprintf("C13.TOTAL [me-pairs %s] %s overlapped: %s", st.name, tupleName, strings.SplitN(r.broken, ":", 2)[0]), Msg: r.broken})
					return out
				}
				if !seq[r.record] {
					msg := "overlapped: " + r.record + "\n    sequential orders give:\n      " + strings.Join(seqList, "\n      ")
					for _, p := range []string{"C13", "C14"} {
						out.Violations = append(out.Violations, vsched.Violation{Property: p, Rule: p + ".LIN",
							Sig: fmt.Sprintf("%s.LIN [me-pairs %s] %s: outcome of the overlap matches no sequential order", p, st.name, tupleName), Msg: msg})
					}
				}
				return out
			}
			if c.Replay != nil {
				if (c.Replay.Harness == "me-pairs" || c.Replay.Harness == "me-pairs+racy") && c.Replay.Config == cfgName {
					ro := vsched.ExploreOpts{Race: true}
					if c.Replay.Harness == "me-pairs+racy" {
						p1 := vsched.Explore(vsched.ExploreOpts{Name: "me-pairs", Config: cfgName, PreemptBound: pre, DevBound: 1, Race: true}, body)
						ro.YieldSites = p1.RaceSites
					}
					out, s := vsched.RunOnce(ro, c.Replay.Choices, true, body)
					rr := &vsched.ReplayResult{Trace: s.Events}
					for _, v := range out.Violations {
						if v.Sig == c.Replay.Sig {
							rr.Reproduced, rr.Msg = true, v.Msg
						}
					}
					for sig := range s.Races {
						if "race: "+sig == c.Replay.Sig {
							rr.Reproduced, rr.Msg = true, sig
						}
					}
					c.SetReplay(rr)
				}
				continue
			}
			// race detection always on; in a property check the racy accesses become scheduling points of
			// a second exploration (see harness/grpcgcp/pairs.go)
			res := vsched.Explore(vsched.ExploreOpts{Name: "me-pairs", Config: cfgName, PreemptBound: pre, DevBound: 1, Race: true, Deadline: deadline}, body)
			c.Add(res)
			if !race && len(res.RaceSites) > 0 {
				res2 := vsched.Explore(vsched.ExploreOpts{Name: "me-pairs+racy", Config: cfgName, PreemptBound: 2, DevBound: 1, Race: true, YieldSites: res.RaceSites, Deadline: deadline}, body)
				c.Add(res2)
			}
		}
	}
}
