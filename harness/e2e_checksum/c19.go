//go:build verif && go1.18

package main

import (
	"bytes"
	"errors"
	"fmt"
	"io"
	"log"
	"strings"
	"testing"

	"google.golang.org/grpc/encoding"
	protoCodec "google.golang.org/grpc/encoding/proto"
	"google.golang.org/protobuf/proto"
	"google.golang.org/protobuf/types/known/emptypb"
	"google.golang.org/protobuf/types/known/structpb"
	"google.golang.org/protobuf/types/known/wrapperspb"

	"verif/engine/vsched"
)

func TestVerif(t *testing.T) {
	log.SetOutput(io.Discard)
	vsched.Main(map[string]vsched.CheckFunc{"C19": checkC19})
}

// independent bitwise CRC32C (Castagnoli, reflected polynomial 0x82F63B78)
func crc32cBitwise(b []byte) uint32 {
	crc := ^uint32(0)
	for _, x := range b {
		crc ^= uint32(x)
		for i := 0; i < 8; i++ {
			if crc&1 == 1 {
				crc = (crc >> 1) ^ 0x82F63B78
			} else {
				crc >>= 1
			}
		}
	}
	return ^crc
}

type field struct {
	num  uint64
	wt   int
	size int // total encoded size including the tag
}

// walk parses a protobuf wire-format byte string into its top-level fields.
func walk(b []byte) ([]field, error) {
	var out []field
	for len(b) > 0 {
		tag, n := uvarint(b)
		if n <= 0 {
			return nil, errors.New("bad tag varint")
		}
		f := field{num: tag >> 3, wt: int(tag & 7)}
		rest := b[n:]
		sz := 0
		switch f.wt {
		case 0:
			_, m := uvarint(rest)
			if m <= 0 {
				return nil, errors.New("bad varint")
			}
			sz = m
		case 1:
			sz = 8
		case 2:
			l, m := uvarint(rest)
			if m <= 0 || uint64(len(rest)-m) < l {
				return nil, errors.New("bad length")
			}
			sz = m + int(l)
		case 5:
			sz = 4
		default:
			return nil, fmt.Errorf("unsupported wire type %d", f.wt)
		}
		if len(rest) < sz {
			return nil, errors.New("truncated")
		}
		f.size = n + sz
		out = append(out, f)
		b = rest[sz:]
	}
	return out, nil
}

func uvarint(b []byte) (uint64, int) {
	var x uint64
	var s uint
	for i, c := range b {
		if i == 10 {
			return 0, -1
		}
		if c < 0x80 {
			return x | uint64(c)<<s, i + 1
		}
		x |= uint64(c&0x7f) << s
		s += 7
	}
	return 0, 0
}

// reentrantCodec: while the inner codec marshals a marker message, another
// complete Marshal runs on the same outer codec (what a concurrent RPC does).
type reentrantCodec struct {
	inner encoding.Codec
	outer *myCodec
	nest  proto.Message
	other []byte
	busy  bool
}

func (r *reentrantCodec) Marshal(v interface{}) ([]byte, error) {
	if w, ok := v.(*wrapperspb.StringValue); ok && w.GetValue() == "marker" && !r.busy {
		r.busy = true
		r.other, _ = r.outer.Marshal(r.nest)
		r.busy = false
	}
	return r.inner.Marshal(v)
}
func (r *reentrantCodec) Unmarshal(data []byte, v interface{}) error {
	return r.inner.Unmarshal(data, v)
}
func (r *reentrantCodec) Name() string { return "reentrant" }

type failingCodec struct{}

var errInner = errors.New("inner codec fails")

func (failingCodec) Marshal(v interface{}) ([]byte, error)      { return []byte{1, 2, 3}, errInner }
func (failingCodec) Unmarshal(data []byte, v interface{}) error { return errInner }
func (failingCodec) Name() string                               { return "failing" }

func messages() []proto.Message {
	var out []proto.Message
	out = append(out, &emptypb.Empty{})
	for _, n := range []int{0, 1, 127, 128, 255, 256, 4090, 4095, 4096, 4097, 16383, 16384, 65535, 65536, 1 << 20} {
		out = append(out, wrapperspb.String(strings.Repeat("x", n)), wrapperspb.Bytes(bytes.Repeat([]byte{0xFD}, n)))
	}
	for _, v := range []int64{0, 1, -1, 127, 128, 1 << 31, -1 << 63, 1<<63 - 1} {
		out = append(out, wrapperspb.Int64(v))
	}
	for _, v := range []uint32{0, 1, 127, 128, 16381, 1<<32 - 1} {
		out = append(out, wrapperspb.UInt32(v))
	}
	leaves := []*structpb.Value{structpb.NewNullValue(), structpb.NewBoolValue(true), structpb.NewNumberValue(1.5), structpb.NewStringValue("s")}
	var lvl1 []*structpb.Value
	for _, a := range leaves {
		lvl1 = append(lvl1, structpb.NewListValue(&structpb.ListValue{Values: []*structpb.Value{a}}))
		for _, b := range leaves {
			lvl1 = append(lvl1, structpb.NewListValue(&structpb.ListValue{Values: []*structpb.Value{a, b}}))
			lvl1 = append(lvl1, structpb.NewStructValue(&structpb.Struct{Fields: map[string]*structpb.Value{"a": a, "b": b}}))
		}
	}
	all := append(append([]*structpb.Value{}, leaves...), lvl1...)
	for _, v := range all {
		out = append(out, &structpb.ListValue{Values: []*structpb.Value{v}}, &structpb.Struct{Fields: map[string]*structpb.Value{"k": v}})
	}
	for i := 0; i+1 < len(lvl1); i += 3 {
		out = append(out, &structpb.ListValue{Values: []*structpb.Value{lvl1[i], lvl1[i+1]}}, &structpb.Struct{Fields: map[string]*structpb.Value{"x": lvl1[i], "y": lvl1[i+1]}})
	}
	out = append(out, &structpb.Struct{}, &structpb.ListValue{})
	return out
}

var unknownVariants = [][]byte{
	nil,
	{0x78, 0x01},                         // field 15 varint 1
	{0x82, 0x01, 0x03, 'a', 'b', 'c'},    // field 16 bytes "abc"
	{0xFD, 0x7F, 0x01, 0x02, 0x03, 0x04}, // a pre-existing field 2047 fixed32
	{0x78, 0x01, 0xFD, 0x7F, 0xAA, 0xBB, 0xCC, 0xDD, 0x82, 0x01, 0x00},
}

func hasMap(m proto.Message) bool {
	_, ok := m.(*structpb.Struct)
	if ok {
		return true
	}
	if l, ok := m.(*structpb.ListValue); ok {
		b, _ := proto.Marshal(l)
		_ = b
		return strings.Contains(fmt.Sprint(l), "struct_value")
	}
	return false
}

func checkC19(c *vsched.RunCtx) {
	st := vsched.Stats{Name: "checksum-codec", Kind: "inputs", Outcomes: map[string]int{}}
	viol := map[string]*vsched.Violation{}
	report := func(rule, cause, msg string) {
		sig := rule + " " + cause
		if v, ok := viol[sig]; ok {
			v.Count++
			return
		}
		viol[sig] = &vsched.Violation{Property: "C19", Rule: rule, Sig: sig, Msg: msg, Harness: "checksum-codec", Count: 1}
	}
	inner := encoding.GetCodec(protoCodec.Name)
	codec := &myCodec{protoCodec: inner}
	nt := map[string]bool{}
	// results are kept while later messages are marshalled: an output must not
	// change after it was returned (no scratch memory shared between calls)
	type held struct {
		desc      string
		out, snap []byte
	}
	var kept []held
	for mi, base := range messages() {
		for ui, unk := range unknownVariants {
			if (mi*len(unknownVariants)+ui)%c.NShards != c.Shard {
				continue
			}
			st.Execs++
			m := proto.Clone(base)
			if unk != nil {
				m.ProtoReflect().SetUnknown(unk)
			}
			desc := fmt.Sprintf("%T(size %d) unknown=%x", m, proto.Size(m), unk)
			var out []byte
			var err error
			func() {
				defer func() {
					if r := recover(); r != nil {
						err = fmt.Errorf("panic: %v", r)
					}
				}()
				out, err = codec.Marshal(m)
			}()
			if err != nil {
				report("C19.M", "Marshal fails on a valid message", fmt.Sprintf("%s: %v", desc, err))
				continue
			}
			kept = append(kept, held{desc, out, append([]byte{}, out...)})
			if len(out) < 6 || out[0] != 0xFD || out[1] != 0x7F {
				report("C19.M", "output does not start with the field-2047 fixed32 tag", fmt.Sprintf("%s: % x", desc, head(out)))
				continue
			}
			body := out[6:]
			crc := uint32(out[2]) | uint32(out[3])<<8 | uint32(out[4])<<16 | uint32(out[5])<<24
			if want := crc32cBitwise(body); crc != want {
				report("C19.M", "checksum field is not the little-endian CRC32C of the standard encoding", fmt.Sprintf("%s: field=%08x crc32c(payload)=%08x", desc, crc, want))
			}
			// payload = the standard encoding of the message
			back := m.ProtoReflect().New().Interface()
			if e := proto.Unmarshal(body, back); e != nil || !proto.Equal(back, m) {
				report("C19.M", "payload after the checksum field is not an encoding of the message", fmt.Sprintf("%s: %v", desc, e))
			}
			if !hasMap(m) {
				det, _ := proto.MarshalOptions{Deterministic: true}.Marshal(m)
				if !bytes.Equal(det, body) {
					report("C19.M", "payload differs from the standard protobuf encoding", fmt.Sprintf("%s: got % x want % x", desc, head(body), head(det)))
				}
			}
			if proto.Size(m) != len(body) {
				report("C19.M", "payload length differs from the standard encoding size", desc)
			}
			// wire structure: exactly one leading field (2047, fixed32, 6 bytes), then the original fields
			fs, e := walk(out)
			if e != nil || len(fs) == 0 || fs[0].num != 2047 || fs[0].wt != 5 || fs[0].size != 6 {
				report("C19.M", "output is not well-formed wire format with a leading 6-byte field 2047", fmt.Sprintf("%s: %v %v", desc, e, fs))
			} else {
				bf, _ := walk(body)
				if len(fs) != len(bf)+1 {
					report("C19.M", "more than one field was added", fmt.Sprintf("%s: %d fields in the output, %d in the payload", desc, len(fs), len(bf)))
				}
			}
			// decodable by the codec and by any conforming parser
			for _, how := range []string{"codec", "proto"} {
				dec := m.ProtoReflect().New().Interface()
				var e error
				if how == "codec" {
					e = codec.Unmarshal(out, dec)
				} else {
					e = proto.Unmarshal(out, dec)
				}
				if e != nil {
					report("C19.U", "output not decodable ("+how+")", fmt.Sprintf("%s: %v", desc, e))
					continue
				}
				wantUnk := append(append([]byte{}, out[:6]...), unk...)
				gotUnk := []byte(dec.ProtoReflect().GetUnknown())
				if !bytes.Equal(gotUnk, wantUnk) {
					report("C19.U", "decoded unknown fields are not the checksum field followed by the original ones ("+how+")", fmt.Sprintf("%s: got % x want % x", desc, gotUnk, wantUnk))
				}
				dec.ProtoReflect().SetUnknown(unk)
				if !proto.Equal(dec, m) {
					report("C19.U", "decoded message differs from the original ("+how+")", desc)
				}
			}
			nt[desc] = true
			if len(st.Samples) < 3 && proto.Size(m) > 0 && proto.Size(m) < 40 {
				st.Samples = append(st.Samples, map[string]interface{}{"message": fmt.Sprintf("%T %v", m, m), "unknown_fields_hex": fmt.Sprintf("%x", unk), "output_hex": fmt.Sprintf("%x", out)})
			}
		}
	}
	// forwarded messages: the output of the codec decoded into a message without
	// known fields (all bytes become unknown fields, starting with a *valid*
	// checksum field) and marshalled again: one more field must be prepended
	if c.Shard == 0 {
		for _, inner := range []proto.Message{&emptypb.Empty{}, wrapperspb.String("abc"), wrapperspb.Int64(5), &structpb.ListValue{Values: []*structpb.Value{structpb.NewBoolValue(true)}}} {
			first, err := codec.Marshal(inner)
			if err != nil {
				continue
			}
			for _, shell := range []proto.Message{&emptypb.Empty{}, wrapperspb.String(""), &structpb.Struct{}} {
				st.Execs++
				shell.ProtoReflect().SetUnknown(append([]byte{}, first...))
				out, err := codec.Marshal(shell)
				desc := fmt.Sprintf("forwarded %T inside %T", inner, shell)
				if err != nil {
					report("C19.M", "Marshal fails on a forwarded message", desc+": "+err.Error())
					continue
				}
				if len(out) != len(first)+6 || out[0] != 0xFD || out[1] != 0x7F || !bytes.Equal(out[6:], first) {
					report("C19.M", "no checksum field prepended to a message whose unknown fields already start with a valid checksum field", fmt.Sprintf("%s: input % x output % x", desc, head(first), head(out)))
					continue
				}
				crc := uint32(out[2]) | uint32(out[3])<<8 | uint32(out[4])<<16 | uint32(out[5])<<24
				if crc != crc32cBitwise(out[6:]) {
					report("C19.M", "checksum field is not the little-endian CRC32C of the standard encoding", desc)
				}
				nt[desc] = true
			}
		}
	}
	// every shard: the small messages again, interleaved, then all kept outputs are compared with their snapshots
	for _, v := range []int64{0, 1, 2} {
		o, _ := codec.Marshal(wrapperspb.Int64(v))
		kept = append(kept, held{fmt.Sprintf("Int64Value(%d)", v), o, append([]byte{}, o...)})
		o2, _ := codec.Marshal(&emptypb.Empty{})
		kept = append(kept, held{"Empty", o2, append([]byte{}, o2...)})
	}
	for _, h := range kept {
		if !bytes.Equal(h.out, h.snap) {
			report("C19.M", "an earlier Marshal result was modified by a later Marshal call", fmt.Sprintf("%s: returned % x, now % x", h.desc, head(h.snap), head(h.out)))
		}
	}
	if c.Shard == 0 {
		// overlapping Marshal calls on one codec value
		for _, nest := range []proto.Message{wrapperspb.String("nested-message"), &emptypb.Empty{}, wrapperspb.Int64(77)} {
			st.Execs++
			rc := &reentrantCodec{inner: inner, nest: nest}
			oc := &myCodec{protoCodec: rc}
			rc.outer = oc
			out, err := oc.Marshal(wrapperspb.String("marker"))
			if err != nil || len(out) < 6 {
				report("C19.M", "Marshal fails when another Marshal overlaps", fmt.Sprint(err))
				continue
			}
			for name, o := range map[string][]byte{"outer": out, "overlapping": rc.other} {
				if len(o) < 6 {
					report("C19.M", "Marshal fails when another Marshal overlaps", name)
					continue
				}
				crc := uint32(o[2]) | uint32(o[3])<<8 | uint32(o[4])<<16 | uint32(o[5])<<24
				if o[0] != 0xFD || o[1] != 0x7F || crc != crc32cBitwise(o[6:]) {
					report("C19.M", "checksum wrong when two Marshal calls on one codec overlap", fmt.Sprintf("%s call with %T nested: field=%08x crc32c(payload)=%08x", name, nest, crc, crc32cBitwise(o[6:])))
				}
			}
			nt[fmt.Sprintf("overlap %T", nest)] = true
		}
		// error of the underlying codec is passed through
		st.Execs++
		fc := &myCodec{protoCodec: failingCodec{}}
		if _, err := fc.Marshal(&emptypb.Empty{}); err != errInner {
			report("C19.E", "marshalling error of the underlying codec not passed through", fmt.Sprint(err))
		}
		if err := fc.Unmarshal([]byte{}, &emptypb.Empty{}); err != errInner {
			report("C19.E", "unmarshalling error of the underlying codec not passed through", fmt.Sprint(err))
		}
		// a non-message value: the inner codec's error must come back
		st.Execs++
		func() {
			defer func() {
				if r := recover(); r != nil {
					report("C19.E", "Marshal panics on a non-message value", fmt.Sprint(r))
				}
			}()
			if _, err := codec.Marshal("not a message"); err == nil {
				report("C19.E", "Marshal accepts a non-message value", "")
			}
		}()
	}
	st.States, st.Transitions, st.Nontrivial = st.Execs, st.Execs, len(nt)
	st.Bound = fmt.Sprintf("%d messages (Empty; String/Bytes wrappers of length 0,1,127,128,16383,16384,65536; Int64/UInt32 boundary values; Struct/ListValue trees of depth<=2, width<=2) x %d unknown-field variants", len(messages()), len(unknownVariants))
	if len(st.Samples) == 0 {
		st.Samples = []interface{}{"(other shard)"}
	}
	c.AddStats(st)
	for _, v := range viol {
		c.AddViolation(*v)
	}
	c.Assume("independent bitwise CRC32C and a hand-written wire-format walker are the oracle; payload byte equality with deterministic proto.Marshal is required only for messages without map fields (map order is not deterministic in the inner codec)")
}

func head(b []byte) []byte {
	if len(b) > 24 {
		return b[:24]
	}
	return b
}
