# Check registry used by vcheck: where each property's harness lives and how it is built.

def me(rule):
    return dict(module='grpcgcp', pkg='grpcgcp/multiendpoint', harness='multiendpoint',
                instrument=[{'pkg': 'grpcgcp/multiendpoint', 'access': True}], level='model_checking',
                workers={'quick': 16, 'thorough': 16}, deadline_s={'quick': 420, 'thorough': 1500}, rule=rule)

def pool(rule):
    return dict(module='grpcgcp', pkg='grpcgcp', harness='grpcgcp',
                instrument=[{'pkg': 'grpcgcp', 'vgrpc': 'gcp_multiendpoint.go', 'access': True}, {'pkg': 'grpcgcp/multiendpoint', 'access': True}], level='model_checking',
                workers={'quick': 16, 'thorough': 16}, deadline_s={'quick': 420, 'thorough': 1500}, rule=rule)

CHECKS = {
    'C13': me('explicit-state BFS over histories of SetEndpointAvailability/SetEndpoints/clock advances on the real multiEndpoint; a state is non-trivial if an availability status or the list changed on the way (counted by distinct canonical state key)'),
    'C14': me('same exploration as C13 with the window/delay/convergence monitors and the timer-exhaustion closure (C14.L1) evaluated from every reached state'),
}
for p in ['C01', 'C02', 'C03', 'C04', 'C05', 'C06', 'C07', 'C08', 'C09', 'C20']:
    CHECKS[p] = pool('explicit-state BFS over histories of balancer callbacks, picks, completions and clock advances on the real gcpBalancer over a fake ClientConn; distinct canonical state keys in which the premise of a rule of this property was exercised')
    CHECKS[p]['deadline_s'] = {'quick': 600, 'thorough': 1500}

CHECKS['C12'] = dict(module='grpcgcp', pkg='grpcgcp', harness='grpcgcp',
                     instrument=[{'pkg': 'grpcgcp', 'vgrpc': 'gcp_multiendpoint.go'}, {'pkg': 'grpcgcp/multiendpoint'}], level='model_checking',
                     workers={'quick': 16, 'thorough': 16}, deadline_s={'quick': 240, 'thorough': 1500},
                     rule='all interleavings (bounded preemptions/deviations) of sender/receiver/canceller/prober threads on the real stream wrapper, plus all combinations of a small input menu for the unary interceptor; non-trivial = distinct (end state, outcome) pairs of executions in which the stream was created or the context cancelled')

for p in ['C15', 'C16']:
    CHECKS[p] = pool('explicit-state BFS over histories of UpdateMultiEndpoints (valid and invalid option sets), pool connectivity changes, dial failures, RPC probes and Close on the real GCPMultiEndpoint over fake pools; non-trivial = states reached through at least one reconfiguration or connectivity change')
    CHECKS[p]['deadline_s'] = {'quick': 900, 'thorough': 1500}  # the gme drivers (7 variants) need about 200 s on 16 idle cores

def inputs(module, pkg, harness, rule, instrument=None):
    return dict(module=module, pkg=pkg, harness=harness, instrument=instrument or [], level='exploration',
                workers={'quick': 16, 'thorough': 16}, deadline_s={'quick': 420, 'thorough': 1500}, rule=rule)

CHECKS['C11'] = inputs('grpcgcp', 'grpcgcp', 'grpcgcp',
                       'exhaustive enumeration of (message shape, value, locator) triples against an independent reference extractor; non-trivial = distinct (message, locator) pairs for which the reference yields at least one key or fans out over a non-empty repeated field',
                       instrument=[{'pkg': 'grpcgcp', 'vgrpc': 'gcp_multiendpoint.go'}, {'pkg': 'grpcgcp/multiendpoint'}])

CHECKS['C17'] = inputs('grpcgcp', 'grpcgcp', 'grpcgcp',
                       'exhaustive enumeration of ApiConfig values (channel_pool grid x method lists) and JSON renderings/corruptions; non-trivial = distinct configurations for which the effective configuration, the method table or GCPConfig() was compared',
                       instrument=[{'pkg': 'grpcgcp', 'vgrpc': 'gcp_multiendpoint.go'}, {'pkg': 'grpcgcp/multiendpoint'}])

CHECKS['C18'] = inputs('spanner_prober', 'spanner_prober', 'spanner_prober',
                       'exhaustive grids for backoff, server-timing metadata pairs, flag strings/numbers and payload sizes; non-trivial = inputs that exercise the interesting branch (backoff strictly between base and max, latency parsed successfully, flag set accepted)')
CHECKS['C18']['extra_files'] = [('spanner_prober/prober/zz_verif_export.go', 'harness/spanner_prober_export/export.go')]
CHECKS['C18']['workers'] = {'quick': 1, 'thorough': 1}

CHECKS['C19'] = inputs('e2e-checksum', 'e2e-checksum', 'e2e_checksum',
                       'exhaustive enumeration of a message grammar x unknown-field variants through the real codec; non-trivial = distinct (message, unknown fields) pairs whose output passed through all oracles')
CHECKS['C19']['workers'] = {'quick': 4, 'thorough': 4}

BFS_NOTE = ('Bounded: depth/alphabet/configurations as reported in the evidence; small scope (<=3 channels/endpoints, 2 keys, <=3 open calls). '
            'Trusted: the instrumenter (vinstr) preserves semantics; the shims for sync/atomic/time/context; the fake environment (ClientConn, virtual clock/timers); the reference model written from the property statement.')
def _m(engine, technique, text, ref, note=BFS_NOTE):
    return dict(engine=engine, technique=technique, text=text, design_ref=ref, note=note)
T_BFS = 'explicit-state model checking of the implementation: exhaustive BFS over operation histories on the real code with canonical-state deduplication, reference-model oracle'
META = {
    'C01': _m('history-bfs', T_BFS, 'Every history up to the depth bound (binds, keyed picks on latest/stale pickers, completions with every outcome, state reports, refresh) in every listed configuration keeps a bound key on its channel (rules R1-R3, unbind/rebind semantics); exhaustive within the bound, so a counterexample of that size cannot be missed.', 'DESIGN.md 4/C01'),
    'C02': _m('history-bfs', T_BFS, 'Least-loaded placement is checked on every pick of every explored history against reference in-flight counts; stream counters are compared with placed-minus-completed after every operation.', 'DESIGN.md 4/C02'),
    'C03': _m('history-bfs', T_BFS, 'Initial size, growth condition, max bound and removal rule are checked on every transition of the explored histories for six (min,max,watermark) configurations.', 'DESIGN.md 4/C03'),
    'C04': _m('history-bfs', T_BFS, 'Published state/picker vs. reference aggregate after every transition, including repeats, unknown/removed/replacement connections, shutdowns and refresh swaps.', 'DESIGN.md 4/C04'),
    'C05': _m('history-bfs', T_BFS, 'No operation of any explored history panics (union alphabet with malformed inputs, stale pickers, failing factory, empty resolver results), in every feature configuration.', 'DESIGN.md 4/C05'),
    'C06': _m('history-bfs', T_BFS, 'Every operation of every explored history returns: self-deadlock is "no enabled thread", spinning is a step budget on instrumented operations, and no lock is held at return.', 'DESIGN.md 4/C06'),
    'C07': _m('history-bfs', T_BFS, 'A reference detector (base instant, counted deadline calls, k, refreshing) decides for every completion whether exactly one replacement must be created; swap, removal and take-over are checked on every state report.', 'DESIGN.md 4/C07'),
    'C08': _m('history-bfs', T_BFS, 'Fallback placement, stand-in stickiness and return-home are checked on every keyed pick of the explored histories, saturated and unsaturated pools.', 'DESIGN.md 4/C08'),
    'C09': _m('history-bfs', T_BFS, 'Round-robin assignment order, waiting only for READY/context end and prompt return are checked over all explored histories (parked picks are threads of the controlled scheduler).', 'DESIGN.md 4/C09'),
    'C10': _m('schedule-dfs', 'stateless model checking of the implementation: exhaustive DFS over thread interleavings under a controlled scheduler (preemption / delay bounded) with a happens-before (vector clock) race detector evaluated on every explored execution', 'All schedules within the bounds of eleven concurrency drivers (pool: grow-race, pick-done, refresh-race, rr-bind, rr-cancel, fallback-pick, resolve-pick, bind-unbind; stream scenarios; gme-update; me-timers) and every pair of pool / MultiEndpoint operations of the pair harnesses are executed on code whose every field, map and slice-element access is instrumented; any two conflicting accesses not ordered by happens-before in any explored execution are reported as the pair of access sites.', 'DESIGN.md 4/C10', 'Bounded: drivers, preemption/deviation/delay bounds as reported. Memory inside gRPC/protobuf is not tracked (slice elements of the own slices of the library are); extra happens-before edges are only ever added (can hide, never invent a race). Trusted: instrumenter, shims, fakes.'),
    'C11': _m('input-enum', 'bounded-exhaustive (small-scope) input enumeration on the real function against an independent reference implementation', 'Every message shape with up to 3 (thorough: 4) type constructors, every value of a small menu and every locator of up to 3 segments is evaluated on the real extractor; totality on all of them, agreement with the reference wherever the statement defines the result.', 'DESIGN.md 4/C11', 'Bounded scope as reported; the reference extractor and the list of unspecified cases are the trusted base.'),
    'C12': _m('schedule-dfs', 'stateless model checking of the implementation: exhaustive DFS over thread interleavings under a controlled scheduler (iterative preemption bounding), per-execution oracles', 'Every interleaving within the preemption bound of SendMsg/RecvMsg/CloseSend/Header/Trailer/Context calls, stream creation success/failure and context cancellation is executed on the real wrapper; lost wake-ups show as blocked threads, panics are caught per thread.', 'DESIGN.md 4/C12', 'Bounded: preemption/deviation bounds and thread programs as reported. Trusted: instrumenter, sync/context shims (Cond wake-up order FIFO as in the runtime), fake streamer.'),
    'C13': _m('history-bfs', T_BFS, 'The real multiEndpoint is driven through every history up to the depth bound for every (recovery, delay) class and compared with an independent reference after every transition.', 'DESIGN.md 4/C13'),
    'C14': _m('history-bfs', T_BFS, 'Window, delay and convergence rules; convergence (L1) is decided from every reached state by firing all pending timers to exhaustion.', 'DESIGN.md 4/C14'),
    'C15': _m('history-bfs', T_BFS, 'After every transition every context (none, known, unknown name) x (unary, stream) is probed and must reach the pool of the reference current endpoint; pool set, re-dial, close-once and monitor liveness are checked after every reconfiguration.', 'DESIGN.md 4/C15'),
    'C16': _m('history-bfs', T_BFS, 'Every invalid option kind and dial failure, as constructor argument and at any later position, must be rejected with routing unchanged; Close and failed construction must leave no open pool and no live thread (the scheduler knows every thread the object spawned).', 'DESIGN.md 4/C16'),
    'C17': _m('input-enum', 'bounded-exhaustive (small-scope) enumeration of configurations and JSON texts on the real parser/balancer/GCPMultiEndpoint against reference expectations', 'Every configuration of the grid is parsed (with well-formed and corrupted JSON renderings), applied through the first resolver update on the real balancer, compared with supplied+defaults, checked for aliasing by mutation, and a second update must change nothing; GCPConfig() deep-copy checks on the real GCPMultiEndpoint.', 'DESIGN.md 4/C17', 'Bounded grid as reported; protojson.Unmarshal into a plain ApiConfig is the oracle for JSON acceptance.'),
    'C18': _m('input-enum', 'bounded-exhaustive (small-scope) input enumeration on the real helper functions against independent references', 'Complete grids of (base,max,retries), (header,trailer) metadata pairs, flag strings up to length 3 over an 11-character alphabet and numeric boundary values are evaluated on the real functions.', 'DESIGN.md 4/C18', 'Bounded grids as reported; NewProber is not called (needs the network).'),
    'C19': _m('input-enum', 'bounded-exhaustive (small-scope) input enumeration on the real codec against an independent CRC32C and wire-format walker', 'Every message of the grammar, with and without unknown fields (including a pre-existing field 2047), is marshalled by the real codec; framing, checksum value, payload identity, decodability by the codec and by plain proto.Unmarshal, and error pass-through are checked.', 'DESIGN.md 4/C19', 'Bounded message grammar as reported.'),
    'C20': _m('history-bfs', T_BFS, 'Address lists handed to every connection (creation, update, take-over) are tracked by the fake ClientConn and compared with the latest resolver result after every transition.', 'DESIGN.md 4/C20'),
}

# development-only entry: all pool concurrency drivers without race detection
CHECKS['SCHED'] = pool('dev')
CHECKS['PAIRS'] = pool('dev')
CHECKS['MEPAIRS'] = me('dev')

_C10_RULE = 'every interleaving within the preemption bound of the concurrency drivers, each checked by a vector-clock race detector over all instrumented field/map accesses; non-trivial = distinct end states of executions with at least two threads'
CHECKS['C10'] = dict(level='model_checking', rule=_C10_RULE, module='grpcgcp', pkg='grpcgcp',
                     workers={'quick': 12, 'thorough': 12}, deadline_s={'quick': 300, 'thorough': 1500},
                     parts=[
                         dict(module='grpcgcp', pkg='grpcgcp', harness='grpcgcp', workers={'quick': 12, 'thorough': 12},
                              instrument=[{'pkg': 'grpcgcp', 'vgrpc': 'gcp_multiendpoint.go', 'access': True}, {'pkg': 'grpcgcp/multiendpoint', 'access': True}]),
                         dict(module='grpcgcp', pkg='grpcgcp/multiendpoint', harness='multiendpoint', workers={'quick': 4, 'thorough': 4},
                              instrument=[{'pkg': 'grpcgcp/multiendpoint', 'access': True}]),
                     ])
