# Check registry used by vcheck: where each property's harness lives and how it is built.

def me(rule):
    return dict(module='grpcgcp', pkg='grpcgcp/multiendpoint', harness='multiendpoint',
                instrument=[{'pkg': 'grpcgcp/multiendpoint'}], level='model_checking',
                workers={'quick': 16, 'thorough': 16}, deadline_s={'quick': 240, 'thorough': 1500}, rule=rule)

def pool(rule):
    return dict(module='grpcgcp', pkg='grpcgcp', harness='grpcgcp',
                instrument=[{'pkg': 'grpcgcp'}, {'pkg': 'grpcgcp/multiendpoint'}], level='model_checking',
                workers={'quick': 16, 'thorough': 16}, deadline_s={'quick': 240, 'thorough': 1500}, rule=rule)

CHECKS = {
    'C13': me('explicit-state BFS over histories of SetEndpointAvailability/SetEndpoints/clock advances on the real multiEndpoint; a state is non-trivial if an availability status or the list changed on the way (counted by distinct canonical state key)'),
    'C14': me('same exploration as C13 with the window/delay/convergence monitors and the timer-exhaustion closure (C14.L1) evaluated from every reached state'),
}
for p in ['C01', 'C02', 'C03', 'C04', 'C05', 'C06', 'C07', 'C08', 'C09', 'C20']:
    CHECKS[p] = pool('explicit-state BFS over histories of balancer callbacks, picks, completions and clock advances on the real gcpBalancer over a fake ClientConn; distinct canonical state keys in which the premise of a rule of this property was exercised')
